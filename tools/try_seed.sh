#!/bin/bash
# usage: try_seed.sh <seed dir> <property ids...>   applies the patch to /repo, runs the quick checks, reverts
S=$(readlink -f "$1"); shift
cd /repo; git diff --quiet || { echo "repo dirty"; exit 2; }
git apply $S/patch.diff || exit 2
for p in "$@"; do
  out=$(cd /verif && timeout 3000 bin/vcheck $p --tier ${TIER:-quick} 2>&1); rc=$?
  echo "TRY seed=$S prop=$p rc=$rc $(echo "$out" | grep -c '^VIOLATION') violation-lines; $(echo "$out" | grep -E 'obligations=' | tail -1)"
  echo "$out" | grep -E "^VIOLATION|INCONCLUSIVE obligation" | head -5
done
git -C /repo checkout -- .
