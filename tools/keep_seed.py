#!/usr/bin/env python3
# usage: keep_seed.py <src dir> <seed id> <property> <detected: yes|no|partial> "<which obligations caught it / note>"
import sys, os, json, shutil
src, sid, prop, det, note = sys.argv[1:6]
dst = os.path.join('/verif/seeded', sid); os.makedirs(dst, exist_ok=True)
for f in os.listdir(src):
    if f in ('patch.diff', 'meta.json', 'run_demo.sh') or f.startswith('demo.') and not f.endswith('.o'):
        if os.path.isfile(os.path.join(src, f)) and os.path.getsize(os.path.join(src, f)) < 200000: shutil.copy(os.path.join(src, f), dst)
m = json.load(open(os.path.join(dst, 'meta.json')))
m['breaks_property'] = prop
m['confirmed_by_me'] = 'tools/confirm_seed.sh: patch applies and builds in a scratch worktree, meson test 33 ok / same 4 failing, demo exits non-zero with the patch and 0 without'
m['detected'] = det; m['detected_by'] = note
json.dump(m, open(os.path.join(dst, 'meta.json'), 'w'), indent=1)
print('kept', dst)
