#!/usr/bin/env python3
"""prints the markdown table of DESIGN.md §13 from seeded/*/meta.json"""
import json, glob, os
rows = []
for d in sorted(glob.glob(os.path.join(os.path.dirname(os.path.abspath(__file__)), '..', 'seeded', '*'))):
    m = json.load(open(os.path.join(d, 'meta.json')))
    rows.append((os.path.basename(d), m.get('breaks_property', m.get('property')), m.get('summary', '')[:150].replace('|', '/'), m.get('detected', '?'), (m.get('detected_by', '') or '')[:170].replace('|', '/')))
print('| seed | property | change | detected | by (obligation; what had to be added first) |\n|---|---|---|---|---|')
for r in rows: print('| %s | %s | %s | %s | %s |' % r)
