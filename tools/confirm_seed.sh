#!/bin/bash
# usage: confirm_seed.sh <seed dir containing patch.diff + demo.c|demo.py>
# Confirms in a scratch worktree (/tmp/wt_confirm, built once, removed with `confirm_seed.sh --clean`):
#   patch applies + builds, test suite still 33 ok, demo fails with the patch and passes without.
WT=/tmp/wt_confirm
if [ "$1" = "--clean" ]; then git -C /repo worktree remove --force $WT; exit 0; fi
S=$(readlink -f "$1")
set -o pipefail
if [ ! -d $WT ]; then git -C /repo worktree add --detach $WT HEAD >/dev/null 2>&1 && (cd $WT && meson setup _build >/dev/null && ninja -C _build >/dev/null) || { echo "CONFIRM: worktree build failed"; exit 2; }; fi
cd $WT; git checkout -q --detach $(git -C /repo rev-parse HEAD) 2>/dev/null; git checkout -- . ; 
rundemo() {
  if [ -f $S/run_demo.sh ]; then bash $S/run_demo.sh >/tmp/seed_demo.out 2>&1; return $?; fi
  if [ -f $S/demo.c ]; then gcc -I include -I _build/include -I _build -I src $S/demo.c -o /tmp/seed_demo -L _build/src -lxrl -lm 2>/tmp/seed_demo_cc.log || { echo "demo compile failed"; cat /tmp/seed_demo_cc.log | head; return 99; }
    LD_LIBRARY_PATH=_build/src timeout 600 /tmp/seed_demo >/tmp/seed_demo.out 2>&1; return $?
  elif [ -f $S/demo.cpp ]; then g++ -std=c++17 -I include -I _build/include -I cplusplus -I _build $S/demo.cpp -o /tmp/seed_demo -L _build/src -lxrl -lm 2>/tmp/seed_demo_cc.log || { echo "demo compile failed"; head /tmp/seed_demo_cc.log; return 99; }
    LD_LIBRARY_PATH=_build/src timeout 600 /tmp/seed_demo >/tmp/seed_demo.out 2>&1; return $?
  else (cd $WT && LD_LIBRARY_PATH=_build/src timeout 600 python3 $S/demo.py >/tmp/seed_demo.out 2>&1); return $?; fi
}
ninja -C _build >/dev/null 2>&1
rundemo; clean_rc=$?
git apply $S/patch.diff || { echo "CONFIRM: patch does not apply"; exit 2; }
if ! ninja -C _build >/tmp/seed_build.log 2>&1; then echo "CONFIRM: build fails with patch"; tail -5 /tmp/seed_build.log; git checkout -- .; exit 2; fi
tests=$(meson test -C _build 2>&1 | grep -E "^Ok:" | awk '{print $2}')
failing=$(meson test -C _build 2>&1 | grep -E "FAIL" | awk '{print $2}' | sort | tr '\n' ' ')
rundemo; mut_rc=$?
git checkout -- . ; ninja -C _build >/dev/null 2>&1
echo "CONFIRM seed=$S tests_ok=$tests failing=[$failing] demo_clean_rc=$clean_rc demo_mutated_rc=$mut_rc"
if [ "$tests" = "33" ] && [ $clean_rc -eq 0 ] && [ $mut_rc -ne 0 ] && [ $mut_rc -ne 99 ]; then echo "CONFIRMED"; exit 0; else echo "NOT-CONFIRMED"; exit 1; fi
