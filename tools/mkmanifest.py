#!/usr/bin/env python3
# regenerates /verif/MANIFEST.json from the table below (single source of truth for check metadata)
import json, os
HERE = os.path.dirname(os.path.dirname(os.path.abspath(__file__)))
A = 'CBMC 6.11 bounded model checking of the goto-cc-compiled real C units (symbolic arguments, havocked tables, unwinding assertions, witness twins)'
B = 'irsym: symbolic execution of the clang LLVM IR of the real units into z3 (bit-vector ints, real doubles, tables/primitives as uninterpreted functions), negated claim unsat'
CHECKS = {
 'C01': dict(tech=A + ' + ' + B + ' for LineEnergy', cat='model_checking',
             text='every scalar accessor is executed symbolically for all 32-bit (Z, macro) and arbitrary table contents; the solver shows value/error protocol and in-bounds access',
             note='malloc never fails; cells non-NaN; formatting stubbed; binding of table cells to data files is the separately reported data lemma'),
 'C10': dict(tech=B, cat='model_checking',
             text='LineEnergy/RadRate IR evaluated symbolically; each group macro proved equal (as real expressions) to the stated mean of its member lines for all Z and all table contents; Siegbahn aliases compared with the IUPAC table',
             note='double modelled as real (no rounding claim); cells >= 0; member with rate has an energy for KA/doublets (DL2); EdgeEnergy/CS_FluorLine uninterpreted in LB'),
 'C09': dict(tech=B, cat='model_checking',
             text='cs_line.c IR evaluated symbolically with the primitives as uninterpreted functions: shell value = photo x jump share x yield for each of the 2^4 edge patterns, line -> shell mapping for every 32-bit line value, LB sum, failure iff undefined',
             note='double modelled as real; primitives >= 0 and error iff 0; DL2: edges ordered K>L1>L2>L3, jump ratios 0 or >= 1'),
 'C05': dict(tech=B, cat='model_checking',
             text='every aggregate / unit-variant entry point (CS_Total, the Kissel totals, 10 barn twins, 4 Kissel twins, DCS/DCSP Rayleigh and Compton) evaluated symbolically with its parts as uninterpreted functions: value equals the defining identity for all Z, E, theta, phi and fails iff a part is undefined',
             note='double modelled as real; parts are uninterpreted >= 0 with error iff 0; sin/cos uninterpreted in [-1,1]; DL2: data present => atomic weight present'),
 'C08': dict(tech=B, cat='model_checking',
             text='all 32 run-time recursion functions, the 16 build-time constant functions, the 8 shell and 8 line entry points (+ aliases and 8 barn twins) evaluated symbolically from the IR: each equals the cascade model written from the macro NAMES (Auger membership, line->shell, CK feeding), for all Z, E, line/shell ints and all table contents; fails iff the partial photo-ionisation is unavailable',
             note='double modelled as real; primitives uninterpreted >= 0 with error iff 0; the pr_data.c dispatch loop that stores the constants and DL1 for a regenerated Kissel table are outside the claim'),
 'C12': dict(tech=B + '; sympy antiderivative certificate checked by z3', cat='model_checking',
             text='Thomson/Klein-Nishina/Compton-energy kernels from the IR: positivity, KN <= Thomson with explicit convergence bound, ratio form, range/monotonicity of the Compton energy, polarised forms affine in cos^2(phi) averaging to the unpolarised ones, dependence on angles only via cos/sin^2, CS_KN = 2 pi integral of DCS_KN by an antiderivative certificate, E <= 0 is an error',
             note='double modelled as real: rounding (e.g. cancellation in CS_KN at very low energy) is outside this claim; libm parity/periodicity, <cos^2> = 1/2 and log 1 = 0 are imported facts'),
 'C11': dict(tech=B, cat='model_checking',
             text='the three build-time derivation functions of pr_data.c evaluated symbolically from the IR for all Z, shells and all 996 Auger macro values: Auger yield = 1 - omega - sum CK (CK set by macro NAME), net non-radiative total = raw total - CK-type transitions (by NAME), rate = raw/net with the source shell by NAME, CK-type reported unavailable',
             note='double modelled as real; raw tables and FluorYield/CosKronTransProb uninterpreted; accessor side is C01; pr_data.c compiled with -Dstatic= so that clang does not specialise the static functions to their call sites'),
 'C06': dict(tech=B, cat='model_checking',
             text='all 21 _CP functions and the 4 refractive-index entry points evaluated symbolically from the IR with the parser/NIST lookup as stubs returning NULL or a symbolic composition of 1..3 elements: mixture rule with the same trailing arguments, formula-then-NIST order, unknown-compound / density / energy errors, element failure => failure, Re/Im/complex agreement, and the composition object released exactly once on every path',
             note='double modelled as real; compositions of at most 3 elements (uniform loop body); elemental functions uninterpreted with error iff 0; parser/NIST behaviour is C07/C15'),
 'C02': dict(tech=B + '; the bisection loop of splint is cut with an inductive invariant (no unrolling)', cat='model_checking',
             text='splint proved for every table length 1..1e9: range protocol with the 1e-7 band, bracketing interval, cubic formula, knot exactness, reads inside [1,n], termination; all 11 call sites proved to pass the knots/ordinates/second derivatives/length of the SAME quantity and element with the documented abscissa and result transform, to guard every table access, to propagate failure; Kissel log-log extension equals its documented clamped-slope form',
             note='double modelled as real; log/exp uninterpreted; n >= 1 for present tables and NShells <= 29 are DL2 facts; the binding of table contents to data files (DL1) is not yet machine-checked in this round'),
 'C13': dict(tech=B + '; local arrays as z3 arrays resolved by case split on element equality', cat='model_checking',
             text='crystal_diffraction.c evaluated symbolically for an arbitrary user crystal: d-spacing equals the reciprocal-metric form, inversion and 1/n scaling, unit-cell volume formula, Bragg law or an error when no reflection exists, Q amplitude, Atomic_Factors outputs, structure factor = explicit sum over atoms with the per-element cache for equal/distinct elements and all 12 flag combinations, invalid flag / Z / NULL crystal errors, additivity in the flags and Friedel law on the proved form',
             note='double modelled as real; trig/sqrt/asin uninterpreted with the stated axioms; <= 2 atoms (quick) / 3 (thorough); |Miller| <= 64; positive-definite cell assumed (DL2 for built-ins not yet machine-checked); (0,0,0) limit uses FF_Rayl(Z,0)=Z from C02'),
 'C15': dict(tech=A + ' over an arbitrary 3-entry catalogue; shipped catalogue constants compared directly', cat='model_checking',
             text='the real NIST and radionuclide lookup units executed by CBMC over a small catalogue with symbolic contents: by-index / by-name / name-list agree, deep independent copies, error protocol, no leak; the shipped catalogues (180 compounds, 10 nuclides) are checked for well-formedness, unique names and index-macro/name agreement by direct evaluation of the constants',
             note='3 entries, names <= 3 bytes, <= 2 elements (functions have no size-dependent branch); memcpy/strdup/lfind are loop models (CBMC built-in memcpy is imprecise on interior sub-arrays); element-symbol bijection and crystal catalogue are covered under C07/C14'),
 'C14': dict(tech=A + '; one inductive step per operation from an arbitrary valid collection state', cat='model_checking',
             text='Crystal_ArrayInit/AddCrystal (user and built-in collection)/GetCrystal/GetCrystalsList/MakeCopy/Free/ArrayFree/ReadFile of the real crystal_diffraction.c executed by CBMC from every array shape with capacity <= 2 and symbolic contents: invariant (sorted, counts, capacity) preserved on the object the caller holds, abstract content = old + new on success and unchanged on rejection, growth when full, built-in capacity enforced, independent copies, everything released by ArrayFree (memory-leak check)',
             note='capacity <= 2 (12 after growth), names <= 2 bytes, <= 1 atom; typed bsearch/qsort/memcpy models with the real comparators; libm stand-ins; Crystal_ReadFile over a stream model: every file of <= 3 lines (10 line kinds) + the one-edit neighbourhood of the canonical file on 5 pre-states, consistency facts only (no file grammar)'),
 'C07': dict(tech=A + ' (scanner: one nesting level of the real CompoundParserSimple per string shape, nested calls replaced by a contract stub via goto-instrument --replace-calls; add_compound_data; symbol table) + ' + B + ' (CompoundParser assembly, locale, ownership)', cat='model_checking',
             text='(1) scanner: for every string shape of <= 3 characters (quick; <= 4 thorough) over the 9 character classes, one nesting level of the real scanner agrees with a reference grammar: accept/reject, strictly ascending element list, counts = algebraic expansion with nested group results scaled by their multiplier, text unmodified, exactly one error on rejection, no leak/double free/out-of-bounds; nesting depth by induction through the contract stub. (2) CompoundParser assembly for <= 3 elements: Elements/nAtoms copied, nAtomsAll, molarMass, massFractions, unweighable elements rejected, numeric locale restored, ownership. (3) add_compound_data for |A|,|B| <= 3: ascending union, wA*fA + wB*fB. (4) element symbol <-> Z bijection on the real table; the parser lookup comparators realise strcmp and the generated sorted symbol table is sorted (direct); AtomicWeight contract (C01 accessor obligation) for "no atomic weight => rejected"',
             note='scanner bounds: strings <= 3 (4) characters per level, <= 2 groups per level, nested results <= 2 elements, subscripts/counts on an exact grid (multilinear identities), characters are class representatives, strtod value and element table abstract per position; formulas longer than the bound and libc strtod/ctype themselves are outside the claim'),
 'C03': dict(tech='composition: ' + B + ' and ' + A + ' (every per-topic obligation carries the error protocol of the function it encodes) + the error module under CBMC', cat='model_checking',
             text='for each exported function that some obligation encodes: success <=> empty slot, sentinel <=> exactly one error with an enum code and a non-empty literal message, no store over an existing error, same value with error == NULL, no domain error on success paths; the error module (set/propagate/clear/copy/free) for every slot state; evidence lists the exported functions that no obligation encodes',
             note='quick tier: cross sections, Kissel cascade, closed forms, line groups, scalar accessors, interpolation, compounds, Auger, symbols, crystal containers, catalogues; jump-ratio XRF and crystal diffraction are swept in the thorough tier; "finite" is claimed as absence of domain errors, not as absence of overflow'),
 'C04': dict(tech='composition: Engine B bounds/NULL/overflow side obligations + CBMC pointer checks and --memory-leak-check on every allocating unit that could be encoded', cat='model_checking',
             text='table indices inside declared dimensions and per-element rows inside [0,N) for every encoded query (any arguments, any table contents); crystal collections (inductive step), catalogue lookups, element symbols and the error module: no out-of-bounds/NULL/use-after-free/double free and no leak on success and failure paths',
             note='NOT covered: the formula scanner CompoundParserSimple (no solver verdict; valgrind only), Crystal_ReadFile, add_compound_data; histories of the non-container API by the frame argument of C16'),
 'C16': dict(tech='frame condition: Engine B evaluation from arbitrary table contents shows no read of mutable statics / no write to static storage; LLVM-IR scan of every unit for stores to statics and process-global libc calls; locale restoration proved on CompoundParser', cat='model_checking',
             text='every encoded query is a function of its arguments and the (immutable) tables: no obligation finds a read of mutable static state or a write to static storage; the structure-factor value identities (stack scratch arrays) and add_compound_data (fresh heap arrays, CBMC malloc = arbitrary contents) show no dependence on uninitialised memory; the only process-global libc state touched is the numeric locale inside CompoundParser, proved restored on every path',
             note='reduction R-frame (DESIGN.md 2.5); pointer-indirect writes are covered only for functions evaluated by Engine B; crystal mutators are the documented exception'),
 'C17': dict(tech='thread-modular frame condition (same obligations as C16); no interleaving is explored (CBMC 6.11 refuses threads+pointers, measured)', cat='other',
             text='sufficient condition for race freedom under any schedule and thread count: disjoint write sets (caller-owned/fresh objects only) and reads of immutable data only; one known finding: setlocale in CompoundParser',
             note='no schedule enumerated, no race detector; malloc/free assumed thread-safe'),
 'C18': dict(tech=B + ' on the LLVM IR of a shim TU generated from the current cplusplus/xraylib++.h (one extern "C" entry per _XRL_FUNCTION instantiation); C functions are uninterpreted with the C03 contract; C++ exception runtime calls are modelled', cat='model_checking',
             text='for _process_error, each of the 95 _XRL_FUNCTION wrappers (const-T... and std::string overloads as the C prototype dictates) the public Crystal::Struct constructor (cell, name, atoms copied into the owned C struct; libstdc++ members opaque) and the 22 Crystal::Struct member / namespace-level / hand-written wrappers that pass scalars through (Bragg_angle, Q_scattering_amplitude, F_H_StructureFactor(_Partial), UnitCellVolume, dSpacing, AddCrystal, Atomic_Factors, SymbolToAtomicNumber, Refractive_Index), for all arguments and any behaviour of the C function allowed by its error contract: exactly one call of the C function of the same name with the wrapper\'s arguments in order and a NULL-initialised local error slot; C value returned unchanged when C succeeds; throws iff C set the error; bad_alloc/invalid_argument/runtime_error chosen by the code; message read before release; error released exactly once',
             note='NOT covered: wrappers that build classes/vectors/strings (compoundData, compoundDataNIST, radioNuclideData, Crystal::Struct constructors/destructor/GetCrystal, Get*List, AtomicNumberToSymbol): libstdc++ container internals are outside the IR evaluator; exception constructors assumed not to throw; implicit argument conversions at user call sites (int passed for double) are not enumerated'),
}
NA = {
 'C19': 'no symbolic engine for Java/JVM bytecode is installed (no JBMC/SPF); a hand-written Java->SMT translator for 5900 lines using ByteBuffer I/O, exceptions and collections is out of reach; see DESIGN.md C19',
 'C20': 'declarations in Fortran/Pascal/Cython/IDL/SWIG/build files have no executable semantics to execute symbolically; the property is a finite comparison of lexed tuples with no quantified variable for a solver to decide; see DESIGN.md C20',
}
PENDING = 'check not built yet in this round (under construction; see DESIGN.md)'
def main():
    props = [json.loads(l)['id'] for l in open(os.path.join(HERE, 'properties.jsonl'))]
    checks = []
    for p in props:
        if p not in CHECKS: continue
        c = CHECKS[p]
        checks.append({'property_id': p, 'quick_cmd': 'bin/vcheck %s --tier quick' % p, 'thorough_cmd': 'bin/vcheck %s --tier thorough' % p,
                       'evidence_file': 'evidence/%s.json' % p, 'replay_cmd_template': 'bin/vcheck --replay {path}',
                       'engine': 'vcheck', 'level_claimed': {'category': c['cat'], 'text': c['text'], 'design_ref': 'DESIGN.md §4 ' + p},
                       'level_note': c['note'], 'technique': c['tech']})
    na = [{'property_id': p, 'reason': NA.get(p, PENDING)} for p in props if p not in CHECKS]
    m = {'version': 1, 'setup_cmd': 'true',
         'hooks': {'guard': 'XRL_VERIF', 'enable': '-DXRL_VERIF is passed to every goto-cc/clang build of /repo/src units by /verif/bin/vcheck (no source hooks are needed)',
                   'baseline_off_cmd': 'meson test -C /repo/_build', 'source_commits': [], 'add_only': True},
         'engines': [{'name': 'A:cbmc', 'path': 'vlib/core.py', 'serves_properties': [p for p in props if p in CHECKS], 'kind_free_text': A},
                     {'name': 'B:irsym', 'path': 'vlib/irsym.py', 'serves_properties': [p for p in props if p in CHECKS], 'kind_free_text': B}],
         'checks': checks, 'not_applicable': na,
         'notes': 'All checks rebuild from /repo working tree into a mktemp scratch dir. known_findings.json lists fixed/known defects.'}
    json.dump(m, open(os.path.join(HERE, 'MANIFEST.json'), 'w'), indent=1)
    print('checks:', [c['property_id'] for c in checks])
main()
