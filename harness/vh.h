/* Common definitions for the CBMC harnesses (Engine A). Included first by every harness.
 * The same harness compiles natively with -DVERIF_REPLAY for counterexample replay. */
#ifndef VH_H
#define VH_H
#include "config.h"
#include <stddef.h>
#include <stdlib.h>
#include <string.h>
#include <stdarg.h>
#include <stdio.h>
#include <math.h>
#include <limits.h>
#include "xraylib.h"
#include "xraylib-error-private.h"

#ifdef VERIF_REPLAY
/* ---------- native replay: inputs come from a key=value file (VERIF_REPLAY_FILE) ---------- */
#include <inttypes.h>
static int vh_fail_count = 0;
static const char *vh_lookup(const char *name) {
  static char buf[1 << 16]; static int loaded = 0; static char *keys[2048]; static char *vals[2048]; static int n = 0;
  if (!loaded) {
    loaded = 1; const char *fn = getenv("VERIF_REPLAY_FILE"); FILE *f = fn ? fopen(fn, "r") : NULL; size_t off = 0;
    char line[512];
    while (f && fgets(line, sizeof line, f) && n < 2048) {
      char *eq = strchr(line, '='); if (!eq) continue; *eq = 0; char *v = eq + 1; v[strcspn(v, "\n")] = 0;
      size_t lk = strlen(line) + 1, lv = strlen(v) + 1; if (off + lk + lv > sizeof buf) break;
      keys[n] = buf + off; memcpy(buf + off, line, lk); off += lk; vals[n] = buf + off; memcpy(buf + off, v, lv); off += lv; n++;
    }
    if (f) fclose(f);
  }
  for (int i = 0; i < n; i++) if (!strcmp(keys[i], name)) return vals[i];
  return NULL;
}
static long long vh_ll(const char *name) { const char *v = vh_lookup(name); return v ? strtoll(v, NULL, 0) : 0; }
static double vh_dbl(const char *name) {
  const char *v = vh_lookup(name); if (!v) return 0.0;
  if (v[0] == 'b') { uint64_t u = strtoull(v + 1, NULL, 2); double d; memcpy(&d, &u, 8); return d; }
  return strtod(v, NULL);
}
#define IN_INT(name) int name = (int)vh_ll(#name)
#define IN_UINT(name) unsigned name = (unsigned)vh_ll(#name)
#define IN_CHAR(name) char name = (char)vh_ll(#name)
#define IN_DOUBLE(name) double name = vh_dbl(#name)
#define HAVOC(obj) memset(&(obj), 0, sizeof(obj))
#define ASSUME(c) do { if (!(c)) { printf("REPLAY: assumption not met: %s\n", #c); exit(3); } } while (0)
#define CHECK(c, msg) do { if (!(c)) { printf("REPLAY-FAIL: %s\n", msg); vh_fail_count++; } } while (0)
#define VH_END() do { printf("REPLAY-DONE failures=%d\n", vh_fail_count); } while (0)
#else
/* ---------- CBMC mode ---------- */
int nondet_int(void); unsigned nondet_uint(void); char nondet_char(void); double nondet_double(void);
long nondet_long(void); size_t nondet_size_t(void); _Bool nondet_bool(void); float nondet_float(void);
#define IN_INT(name) int name = nondet_int()
#define IN_UINT(name) unsigned name = nondet_uint()
#define IN_CHAR(name) char name = nondet_char()
#define IN_DOUBLE(name) double name = nondet_double()
#define HAVOC(obj) __CPROVER_havoc_object(&(obj))
#define ASSUME(c) __CPROVER_assume(c)
#define CHECK(c, msg) __CPROVER_assert(c, msg)
#ifdef WITNESS
#define VH_END() __CPROVER_assert(0, "WITNESS reachability of harness end")
#else
#define VH_END() do {} while (0)
#endif

#ifndef VH_NO_FORMAT_STUBS
/* Formatting is not the subject of any property: O(1) bodies (DESIGN.md §2.2).
 * vasprintf: allocates a non-empty 2-byte string; fprintf: no effect. */
int vasprintf(char **strp, const char *fmt, va_list ap) {
  (void)fmt; (void)ap;
  char *s = malloc(2); __CPROVER_assume(s != 0); s[0] = 'E'; s[1] = 0; *strp = s; return 1;
}
int fprintf(FILE *stream, const char *fmt, ...) { (void)stream; (void)fmt; return 0; }
#ifdef VH_NO_STRDUP_MODEL
/* the harness brings its own strdup */
#elif defined(VH_REAL_STRDUP)
/* faithful strdup for the catalogue harnesses (names matter there): bounded by VH_STRMAX bytes */
#ifndef VH_STRMAX
#define VH_STRMAX 96
#endif
char *strdup(const char *src) {
  __CPROVER_assert(src != 0, "strdup: source is not NULL");
  /* strings longer than VH_STRMAX-1 bytes (only the library's error message literals in these harnesses) are truncated */
  size_t n = 0; while (n < VH_STRMAX - 1 && src[n] != 0) n++;
  char *s = malloc(n + 1); __CPROVER_assume(s != 0);
  for (size_t k = 0; k < n; k++) s[k] = src[k];
  s[n] = 0;
  return s;
}
#else
/* strdup: fresh 2-byte string holding the first byte of the source (keeps empty/non-empty), no strlen loop */
char *strdup(const char *src) {
  __CPROVER_assert(src != 0, "strdup: source is not NULL");
  char *s = malloc(2); __CPROVER_assume(s != 0); s[0] = src[0]; s[1] = 0; return s;
}
#endif
#endif
#ifndef VH_NO_MEMCPY_MODEL
/* byte-loop memcpy: CBMC 6.11's built-in model (array_copy/array_replace) is wrong when the source or destination is an
 * interior sub-array of a larger object (measured: copy of row k > 0 of a 2-D table compares unequal); the loop is exact */
void *memcpy(void *dst, const void *src, size_t n) {
  for (size_t i = 0; i < n; i++) ((char *)dst)[i] = ((const char *)src)[i];
  return dst;
}
#endif
#ifdef VH_SEARCH_MODELS
/* lfind / bsearch: linear scan / binary search with the REAL comparator (search.h / stdlib.h semantics) */
void *lfind(const void *key, const void *base, size_t *nmemb, size_t size, int (*compar)(const void *, const void *)) {
  for (size_t i = 0; i < *nmemb; i++) { const char *e = (const char *)base + i * size; if (compar(key, e) == 0) return (void *)e; }
  return 0;
}
void *bsearch(const void *key, const void *base, size_t nmemb, size_t size, int (*compar)(const void *, const void *)) {
  size_t lo = 0, hi = nmemb;
  while (lo < hi) { size_t mid = lo + (hi - lo) / 2; const char *e = (const char *)base + mid * size; int c = compar(key, e);
    if (c == 0) return (void *)e; if (c < 0) hi = mid; else lo = mid + 1; }
  return 0;
}
/* qsort: insertion sort with the REAL comparator, element size <= 96 bytes */
void qsort(void *base, size_t nmemb, size_t size, int (*compar)(const void *, const void *)) {
  char tmp[96]; char *b = (char *)base;
  __CPROVER_assert(size <= 96, "qsort model: element size <= 96");
  for (size_t i = 1; i < nmemb; i++) {
    size_t j = i;
    while (j > 0 && compar(b + (j - 1) * size, b + j * size) > 0) {
      for (size_t k = 0; k < size; k++) { tmp[k] = b[(j - 1) * size + k]; b[(j - 1) * size + k] = b[j * size + k]; b[j * size + k] = tmp[k]; }
      j--;
    }
  }
}
#endif
#endif /* VERIF_REPLAY */

/* error-slot protocol assertions shared by all harnesses */
#define CHECK_ERR_SET(err, msgprefix) do { \
    CHECK((err) != NULL, msgprefix ": failure must store an error"); \
    if ((err) != NULL) { \
      CHECK((err)->message != NULL && (err)->message[0] != 0, msgprefix ": error message non-empty"); \
      CHECK((err)->code >= XRL_ERROR_MEMORY && (err)->code <= XRL_ERROR_RUNTIME, msgprefix ": error code is a member of the enum"); \
    } } while (0)
#define CHECK_ERR_INVALID_ARG(err, msgprefix) do { CHECK_ERR_SET(err, msgprefix); \
    if ((err) != NULL) CHECK((err)->code == XRL_ERROR_INVALID_ARGUMENT, msgprefix ": error code INVALID_ARGUMENT"); } while (0)

static inline int vh_finite(double x) { return !isnan(x) && !isinf(x); }
#endif
