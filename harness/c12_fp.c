/* C12 (bit-precise part): CS_KN in IEEE double arithmetic with log() replaced by an enclosure of log1p:
 * for b = 1 + x, x >= 0:  x - x*x/2 <= log(b) <= x.  Asks whether the total Klein-Nishina cross section stays
 * within [0, sigma_Thomson (1+1e-6)] on the property's energy range. */
#include "vh.h"
#include <math.h>
double log(double b) {
  double x = b - 1.0;            /* exact for b in [1,2) computed as 1+2a with small a; enclosure is widened below */
  double r = nondet_double();
  __CPROVER_assume(!isnan(r) && r <= x * (1.0 + 1e-15) && r >= (x - x * x / 2.0) * (1.0 - 1e-15));
  return r;
}
void harness_cs_kn(void) {
  IN_DOUBLE(E); xrl_error *err = NULL;
  ASSUME(E >= 1e-6 && E <= VH_EMAX);
  double r = CS_KN(E, &err);
  double sigma_t = 8.0 * PI / 3.0 * RE2;
  CHECK(err == NULL, "CS_KN: no error for E > 0");
  CHECK(!isnan(r) && !isinf(r), "CS_KN: finite");
  CHECK(r > 0.0, "CS_KN: positive");
  CHECK(r <= sigma_t * (1.0 + 1e-6), "CS_KN never exceeds the Thomson total cross section");
  VH_END();
}
