/* stand-in for the generated radionuclide catalogue: small, symbolic contents (see xraylib-nist-compounds-internal.h here) */
#include "xraylib.h"
#include "xraylib-error-private.h"
#define NCAT 3
#define NAMEMAX 4
#define ELMAX 2
static const int nNuclideDataList = NCAT;
static char vh_rn_names[NCAT][NAMEMAX];
static int vh_rn_lines[NCAT][ELMAX];
static double vh_rn_xi[NCAT][ELMAX];
static double vh_rn_ge[NCAT][ELMAX];
static double vh_rn_gi[NCAT][ELMAX];
static struct radioNuclideData nuclideDataList[NCAT];
