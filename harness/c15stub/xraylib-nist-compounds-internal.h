/* C15/C04/C03 harness stand-in for the generated catalogue header: a SMALL catalogue with symbolic contents.
 * The functions under test are the real ones (xraylib-nist-compounds.c is copied next to this file on every run). */
#include <xraylib-nist-compounds.h>
#define NCAT 3
#define NAMEMAX 4
#define ELMAX 2
static const int nCompoundDataNISTList = NCAT;
static char vh_cat_names[NCAT][NAMEMAX];
static int vh_cat_el[NCAT][ELMAX];
static double vh_cat_mf[NCAT][ELMAX];
static struct compoundDataNIST compoundDataNISTList[NCAT];
