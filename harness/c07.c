/* C07: the formula parser computes the true composition of every well-formed formula and rejects everything else, for EVERY
 * NUL-terminated string of at most LMAX bytes.  Differential harness: the real xraylib-parser.c (#included) against a
 * recursive-descent reference written here.  The element table is abstract: symbol -> Z is an arbitrary injective partial
 * function on 1-2 letter symbols (the real table's lookup is a separate obligation), so the verdict holds for any element table. */
#define VH_NO_STRDUP_MODEL
#define VH_STRMAX 8
#include "vh.h"
#include <ctype.h>
#include <locale.h>
#include "xrayglob.h"
#ifndef LMAX
#define LMAX 3
#endif

/* error objects in O(1) (the error module itself is the subject of C03's harness, not of this one): no string loops */
void xrl_set_error_literal(xrl_error **err, xrl_error_code code, const char *message) {
  __CPROVER_assert(message != NULL && message[0] != 0, "error message is a non-empty literal");
  if (err == NULL) return;
  __CPROVER_assert(*err == NULL, "no error is stored over an existing one");
  xrl_error *e = malloc(sizeof(xrl_error)); __CPROVER_assume(e != NULL);
  e->code = code; e->message = malloc(2); __CPROVER_assume(e->message != NULL); e->message[0] = message[0]; e->message[1] = 0;
  *err = e;
}
void xrl_set_error(xrl_error **err, xrl_error_code code, const char *format, ...) { xrl_set_error_literal(err, code, format); }
void xrl_error_free(xrl_error *e) { if (e == NULL) return; free(e->message); free(e); }
char *xrl_strdup(const char *s) { return strdup(s); }
char *xrl_strndup(const char *s, size_t n) { return strndup(s, n); }

/* ---- models of the C library pieces the parser uses (each is part of the claim) */
/* locale: POSIX contract - setlocale(cat, NULL) queries; setlocale(cat, name) installs it and returns the name now in force */
static char vh_locale_user[] = "xx_XX";           /* the caller's numeric locale */
static char vh_locale_c[] = "C";
static char *vh_locale_now = vh_locale_user;
char *strndup(const char *s, size_t n);
char *setlocale(int cat, const char *name) {
  (void)cat;
  if (name == NULL) return vh_locale_now;
  if (name[0] == 'C' && name[1] == 0) vh_locale_now = vh_locale_c;
  else if (strcmp(name, vh_locale_user) == 0) vh_locale_now = vh_locale_user;
  else { __CPROVER_assert(0, "setlocale called with a locale name that was never in force"); }
  return vh_locale_now;
}
char *strndup(const char *s, size_t n) {
  /* fixed-size block (symbolic-size objects make CBMC's symbolic execution crawl); the tail is zero-filled */
  char *r = malloc(VH_STRMAX); __CPROVER_assume(r != 0);
  int done = 0;
  for (size_t i = 0; i < VH_STRMAX; i++) { if (i >= n || i >= VH_STRMAX - 1 || s[i] == 0) done = 1; r[i] = done ? 0 : s[i]; }
  return r;
}
#define VH_OWN_STRDUP
char *strdup(const char *s) { return strndup(s, VH_STRMAX - 1); }
/* decimal subscript reader shared by the strtod model and the reference grammar: [0-9]*(.[0-9]*)? of at most 3 characters.
 * Integer mantissa and decimal scale, ONE correctly rounded division by an exact power of ten: for these short strings that is
 * exactly strtod's correctly rounded result, and it keeps the SAT formula small (a digit-by-digit floating-point loop made it
 * 36 M clauses for the formula "H"). */
static const double vh_tenth[10] = {0.0, 0.1, 0.2, 0.3, 0.4, 0.5, 0.6, 0.7, 0.8, 0.9};
static double vh_number(const char *s, int *len) {
  /* no floating-point division or multiplication (each costs the SAT back end millions of clauses per inlined call site):
   * integer part (<= 2 digits) converted exactly, at most one fractional digit from a table of nearest doubles, one addition */
  int ip = 0, fd = 0, dot = 0, digits = 0, nfrac = 0, k = 0;
  for (; k < 4; k++) {
    char c = s[k];
    if (c >= '0' && c <= '9') { digits++; if (dot) { fd = c - '0'; nfrac++; } else ip = ip * 10 + (c - '0'); }
    else if (c == '.' && !dot) dot = 1;
    else break;
  }
  __CPROVER_assert(k < 4 && nfrac <= 1, "harness bound: subscripts of at most 3 characters with at most one fractional digit");
  *len = digits ? k : 0;
  return (double)ip + vh_tenth[fd];
}
double strtod(const char *s, char **end) {
  int len; double v;
  __CPROVER_assert(vh_locale_now == vh_locale_c, "strtod runs under the C numeric locale");
  v = vh_number(s, &len);
  if (end) *end = (char *)s + len;
  return v;
}

/* abstract element table */
#define NSYM 4
static char vh_sym0[NSYM], vh_sym1[NSYM]; static struct MendelElement vh_ent[NSYM]; static int vh_known[NSYM]; static int vh_nsym = 0;
static struct MendelElement *vh_lookup(const char *sym) {
  char c0 = sym[0], c1 = sym[0] ? sym[1] : 0;
  for (int k = 0; k < NSYM && k < vh_nsym; k++) if (vh_sym0[k] == c0 && vh_sym1[k] == c1) return vh_known[k] ? &vh_ent[k] : NULL;
  __CPROVER_assert(vh_nsym < NSYM, "harness: at most NSYM distinct symbols per formula");
  int k = vh_nsym++;
  vh_sym0[k] = c0; vh_sym1[k] = c1; vh_known[k] = nondet_int() != 0;
  int z = nondet_int(); __CPROVER_assume(z >= 1 && z <= MENDEL_MAX);
  for (int j = 0; j < NSYM && j < k; j++) __CPROVER_assume(!vh_known[j] || vh_ent[j].Zatom != z);   /* injective */
  vh_ent[k].Zatom = z; vh_ent[k].name = NULL;
  return vh_known[k] ? &vh_ent[k] : NULL;
}

struct compoundAtom;
static void *vh_bsearch(const void *key, const void *base, size_t n, size_t size, int (*cmp)(const void *, const void *));
static void vh_qsort(void *base, size_t n, size_t size, int (*cmp)(const void *, const void *));
/* realloc: grows in place inside a block of fixed capacity (a legal realloc behaviour; CBMC's generic model of a symbolic-size
 * copy makes symbolic execution of the pointer arrays crawl). Capacity is checked. */
#define VH_REALLOC_CAP (16 * (LMAX + 2))
static void *vh_realloc(void *p, size_t n) {
  __CPROVER_assert(n <= VH_REALLOC_CAP, "realloc model: request within the fixed capacity");
  if (p == NULL) { void *q = malloc(VH_REALLOC_CAP); __CPROVER_assume(q != NULL); return q; }
  return p;
}
#define realloc(p, n) vh_realloc(p, n)
#define bsearch(key, base, n, size, cmp) vh_bsearch(key, base, n, size, cmp)
#define qsort(base, n, size, cmp) vh_qsort(base, n, size, cmp)
#include "xraylib-parser.c"
#undef bsearch
#undef qsort
#undef realloc

static void *vh_bsearch(const void *key, const void *base, size_t n, size_t size, int (*cmp)(const void *, const void *)) {
  if (cmp == matchMendelElement) return vh_lookup((const char *)key);           /* element symbol -> abstract table */
  const struct compoundAtom *b = (const struct compoundAtom *)base; size_t lo = 0, hi = n;
  while (lo < hi) { size_t mid = lo + (hi - lo) / 2; int c = cmp(key, &b[mid]); if (c == 0) return (void *)&b[mid]; if (c < 0) hi = mid; else lo = mid + 1; }
  return NULL;
}
static void vh_qsort(void *base, size_t n, size_t size, int (*cmp)(const void *, const void *)) {
  if (size == sizeof(struct compoundAtom)) {
    struct compoundAtom *b = (struct compoundAtom *)base;
    for (size_t i = 1; i < n; i++) { size_t j = i; while (j > 0 && cmp(&b[j - 1], &b[j]) > 0) { struct compoundAtom t = b[j - 1]; b[j - 1] = b[j]; b[j] = t; j--; } }
  } else {
    int *b = (int *)base;
    for (size_t i = 1; i < n; i++) { size_t j = i; while (j > 0 && cmp(&b[j - 1], &b[j]) > 0) { int t = b[j - 1]; b[j - 1] = b[j]; b[j] = t; j--; } }
  }
}

/* atomic weight: abstract - each element has an arbitrary positive weight or none (0 + error), fixed per element */
static int vh_awZ[NSYM]; static double vh_awV[NSYM]; static int vh_naw = 0;
double AtomicWeight(int Z, xrl_error **error) {
  double v = 0.0; int f = 0;
  for (int k = 0; k < NSYM && k < vh_naw; k++) if (vh_awZ[k] == Z) { v = vh_awV[k]; f = 1; }
  if (!f) { __CPROVER_assert(vh_naw < NSYM, "harness: at most NSYM elements"); v = nondet_double(); __CPROVER_assume(v == 0.0 || (v >= 1.0 && v <= 300.0)); vh_awZ[vh_naw] = Z; vh_awV[vh_naw] = v; vh_naw++; }
  if (v == 0.0) xrl_set_error_literal(error, XRL_ERROR_INVALID_ARGUMENT, Z_OUT_OF_RANGE);
  return v;
}

/* ---- reference: recursive descent, formula -> (Z -> count) over at most NSYM elements */
static int rZ[NSYM]; static double rN[NSYM]; static int rn; static int rok;
static const char *rp;
static void r_add(int z, double n) { for (int k = 0; k < NSYM && k < rn; k++) if (rZ[k] == z) { rN[k] += n; return; } if (rn < NSYM) { rZ[rn] = z; rN[rn] = n; rn++; } }
static int r_isupper(char c) { return c >= 'A' && c <= 'Z'; }
static int r_islower(char c) { return c >= 'a' && c <= 'z'; }
static int r_isdigit(char c) { return c >= '0' && c <= '9'; }
/* subscript: [0-9.]* with at most one dot after the first character ... mirrors only the DOCUMENTED grammar: a positive decimal number */
static double r_number(int *present) {
  /* documented grammar: a positive decimal number (digits with at most one dot, at least one digit, non-zero) */
  int n = 0, dots = 0, digits = 0;
  while ((r_isdigit(rp[n]) || rp[n] == '.') && n < 4) { if (rp[n] == '.') dots++; else digits++; n++; }
  *present = n > 0;
  if (n == 0) return 1.0;
  int len; double v = vh_number(rp, &len);
  if (dots > 1 || digits == 0 || len != n || v == 0.0) rok = 0;
  rp += n;
  return v;
}
static void r_group(int depth, int gZ[], double gN[], int *gn);
static void r_sequence(int depth, char stop, int gZ[], double gN[], int *gn) {
  int items = 0;
  for (int guard = 0; guard <= LMAX; guard++) {
    char c = *rp;
    if (c == stop) break;
    if (c == 0 || !rok) { if (c == 0 && stop != 0) rok = 0; break; }
    if (r_isupper(c)) {
      char sym[3]; sym[0] = c; sym[1] = 0; sym[2] = 0; rp++;
      if (r_islower(*rp)) { sym[1] = *rp; rp++; if (r_islower(*rp)) { rok = 0; break; } }
      struct MendelElement *e = vh_lookup(sym);
      int pres; double n = r_number(&pres);
      if (e == NULL) { rok = 0; break; }
      if (rok) { int f = 0; for (int k = 0; k < NSYM && k < *gn; k++) if (gZ[k] == e->Zatom) { gN[k] += n; f = 1; } if (!f && *gn < NSYM) { gZ[*gn] = e->Zatom; gN[*gn] = n; (*gn)++; } }
      items++;
    } else if (c == '(' && depth < 2) {
      rp++;
      int iz[NSYM]; double in[NSYM]; int inn = 0;
      r_sequence(depth + 1, ')', iz, in, &inn);
      if (!rok) break;
      if (*rp != ')') { rok = 0; break; }
      rp++;
      int pres; double n = r_number(&pres);
      if (!rok) break;
      if (inn == 0) { rok = 0; break; }
      for (int k = 0; k < NSYM && k < inn; k++) { int f = 0; for (int m = 0; m < NSYM && m < *gn; m++) if (gZ[m] == iz[k]) { gN[m] += in[k] * n; f = 1; } if (!f && *gn < NSYM) { gZ[*gn] = iz[k]; gN[*gn] = in[k] * n; (*gn)++; } }
      items++;
    } else { rok = 0; break; }
  }
  if (items == 0) rok = 0;
}

void harness_parse(void) {
  char s[LMAX + 1];
  for (int k = 0; k < LMAX; k++) s[k] = nondet_char();
  s[LMAX] = 0;
  xrl_error *err = NULL;
  struct compoundData *cd = CompoundParser(s, &err);
  CHECK(vh_locale_now == vh_locale_user, "parser leaves the numeric locale as it found it");
  /* protocol */
  if (cd == NULL) { CHECK_ERR_INVALID_ARG(err, "CompoundParser rejects"); }
  else {
    CHECK(err == NULL, "CompoundParser: success leaves the error slot empty");
    CHECK(cd->nElements >= 1 && cd->nElements <= NSYM, "composition has at least one element");
    for (int k = 0; k < NSYM && k < cd->nElements; k++) {
      if (k > 0) CHECK(cd->Elements[k] > cd->Elements[k - 1], "elements strictly ascending, no duplicates");
      CHECK(cd->nAtoms[k] > 0.0, "atom counts positive");
      CHECK(AtomicWeight(cd->Elements[k], NULL) > 0.0, "only elements with an atomic weight are accepted");
      CHECK(cd->massFractions[k] > 0.0, "mass fractions positive");
    }
  }
#ifndef NO_REFERENCE
  /* differential part: accept/reject and the composition agree with the reference grammar */
  rp = s; rok = 1; int gz[NSYM]; double gn[NSYM]; int gnn = 0;
  r_sequence(0, 0, gz, gn, &gnn);
  if (rok) for (int k = 0; k < NSYM && k < gnn; k++) if (!(AtomicWeight(gz[k], NULL) > 0.0)) rok = 0;
  CHECK((cd != NULL) == (rok != 0), "accepts exactly the well-formed formulas over known, weighable elements");
  if (cd != NULL && rok) {
    CHECK(cd->nElements == gnn, "same number of distinct elements as the algebraic expansion");
    for (int k = 0; k < NSYM && k < gnn; k++) {
      int f = 0;
      for (int m = 0; m < NSYM && m < cd->nElements; m++) if (cd->Elements[m] == gz[k]) { f = 1; CHECK(cd->nAtoms[m] == gn[k], "atom count equals the algebraic expansion of the formula"); }
      CHECK(f, "every element of the expansion is reported");
    }
  }
#endif
  if (cd) FreeCompoundData(cd);
  xrl_error_free(err);
  VH_END();
}
