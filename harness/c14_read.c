/* C14 (loading crystal files): one call of the real Crystal_ReadFile on an ARBITRARY valid user array and a file of at most LINES_MAX
 * lines, case split by the KIND of every line (the control flow of the reader depends on a line only through its first characters and
 * on what the scanf family makes of it).  Names are concrete (the file's crystals are all called a, b or c per batch; existing
 * entries are "b", "d"), so control flow is concrete and CBMC folds it; cell lengths (grid) and atom records are symbolic.
 * Claimed (consistency, not a file grammar): on failure the collection is as it was and one error is stored; on success the array is
 * strictly sorted, every previous entry is still there, every new entry carries a name, cell and atoms that appear in the file and a
 * recomputed volume; in both cases the file is closed exactly once and nothing is leaked after Crystal_ArrayFree.
 * stdio model (part of the claim): a stream is a sequence of lines; fgets returns NULL at end of file, leaves the buffer untouched and
 * sets the EOF flag (also set when the last line has no newline: variant LAST_NL = 0); ftell/fseek save/restore the line position;
 * fscanf("%i %lf %lf %lf %lf") skips blank lines, consumes one well-formed atom line (5), partially consumes a malformed one (2), stops at
 * any other line (0) and returns EOF at the end; sscanf on the current line yields 3 / 7 conversions for well-formed #S / #UCELL lines. */
#define VH_REAL_STRDUP
#define VH_STRMAX 8
#include "vh.h"
#include "xrayglob.h"
#include <errno.h>

#ifndef LINES_MAX
#define LINES_MAX 6
#endif
enum { K_S_OK, K_S_BAD, K_UCELL_OK, K_UCELL_BAD, K_L, K_HASH, K_ATOM_OK, K_ATOM_BAD, K_BLANK, K_TEXT, NKIND };
static const char *const vh_rep[NKIND] = {"#S 1 a", "#S", "#UCELL", "#UCELL", "#L", "#X", "1 0 0", "1 x", " ", "text"};
static struct { int nlines, pos, eof, open, closed, cur; unsigned char kind[LINES_MAX + 1]; } vh_f;
static int vh_last_nl;
/* symbolic payload per line */
static char vh_name[LINES_MAX + 1][3]; static double vh_cell[LINES_MAX + 1][6]; static Crystal_Atom vh_atom[LINES_MAX + 1];

static FILE *vh_fopen(const char *fn, const char *mode) { (void)fn; (void)mode; __CPROVER_assert(!vh_f.open, "stream model: one stream"); vh_f.open = 1; vh_f.pos = 0; vh_f.eof = 0; vh_f.cur = -1; return (FILE *)&vh_f; }
static int vh_fclose(FILE *fp) { __CPROVER_assert(fp == (FILE *)&vh_f && vh_f.open, "fclose: an open stream"); vh_f.open = 0; vh_f.closed++; return 0; }
static int vh_feof(FILE *fp) { __CPROVER_assert(fp == (FILE *)&vh_f && vh_f.open, "feof: an open stream"); return vh_f.eof; }
static char *vh_fgets(char *buf, int n, FILE *fp) {
  __CPROVER_assert(fp == (FILE *)&vh_f && vh_f.open && n >= 8, "fgets: an open stream");
  if (vh_f.pos >= vh_f.nlines) { vh_f.eof = 1; return NULL; }
  const char *r = vh_rep[vh_f.kind[vh_f.pos]];
  for (int k = 0; k < 7; k++) { buf[k] = r[k]; if (r[k] == 0) break; }
  buf[7] = 0;
  vh_f.cur = vh_f.pos; vh_f.pos++;
  if (vh_f.pos == vh_f.nlines && !vh_last_nl) vh_f.eof = 1;       /* last line without a newline: EOF is hit while reading it */
  return buf;
}
static long vh_ftell(FILE *fp) { __CPROVER_assert(fp == (FILE *)&vh_f && vh_f.open, "ftell: an open stream"); return vh_f.pos; }
static int vh_fseek(FILE *fp, long off, int whence) { __CPROVER_assert(fp == (FILE *)&vh_f && vh_f.open && whence == SEEK_SET && off >= 0 && off <= vh_f.nlines, "fseek: back to a remembered position"); vh_f.pos = (int)off; vh_f.eof = 0; return 0; }
static int vh_sscanf_s(const char *buf, const char *fmt, char *tag, int *i, char *compound) {
  (void)buf; (void)fmt; __CPROVER_assert(vh_f.cur >= 0, "sscanf: a line was read");
  int k = vh_f.kind[vh_f.cur];
  if (k != K_S_OK) { tag[0] = '#'; tag[1] = 0; return k == K_S_BAD ? 2 : 1; }
  tag[0] = '#'; tag[1] = 'S'; tag[2] = 0; *i = nondet_int();
  compound[0] = vh_name[vh_f.cur][0]; compound[1] = 0;
  return 3;
}
static int vh_sscanf_u(const char *buf, const char *fmt, char *tag, double *a, double *b, double *c, double *al, double *be, double *ga) {
  (void)buf; (void)fmt; __CPROVER_assert(vh_f.cur >= 0, "sscanf: a line was read");
  tag[0] = '#'; tag[1] = 0;
  if (vh_f.kind[vh_f.cur] != K_UCELL_OK) return 3;
  const double *v = vh_cell[vh_f.cur]; *a = v[0]; *b = v[1]; *c = v[2]; *al = v[3]; *be = v[4]; *ga = v[5];
  return 7;
}
static int vh_fscanf_a(FILE *fp, const char *fmt, int *z, double *f, double *x, double *y, double *zz) {
  (void)fmt; __CPROVER_assert(fp == (FILE *)&vh_f && vh_f.open, "fscanf: an open stream");
  while (vh_f.pos < vh_f.nlines && vh_f.kind[vh_f.pos] == K_BLANK) vh_f.pos++;
  if (vh_f.pos >= vh_f.nlines) { vh_f.eof = 1; return EOF; }
  int k = vh_f.kind[vh_f.pos];
  if (k == K_ATOM_OK) { const Crystal_Atom *a = &vh_atom[vh_f.pos]; *z = a->Zatom; *f = a->fraction; *x = a->x; *y = a->y; *zz = a->z; vh_f.pos++; return 5; }
  if (k == K_ATOM_BAD) { *z = 1; *f = 0.0; vh_f.pos++; return 2; }
  return 0;
}
#define VH_NARG_(a1, a2, a3, a4, a5, a6, a7, a8, a9, N, ...) N
#define VH_NARG(...) VH_NARG_(__VA_ARGS__, 9, 8, 7, 6, 5, 4, 3, 2, 1)
#define VH_CAT_(a, b) a##b
#define VH_CAT(a, b) VH_CAT_(a, b)
#define vh_sscanf5 vh_sscanf_s
#define vh_sscanf9 vh_sscanf_u

static void *vh_bsearch_crystal(const void *key, const void *base, size_t n, int (*cmp)(const void *, const void *)) {
  const Crystal_Struct *b = (const Crystal_Struct *)base; size_t lo = 0, hi = n;
  while (lo < hi) { size_t mid = lo + (hi - lo) / 2; int c = cmp(key, &b[mid]); if (c == 0) return (void *)&b[mid]; if (c < 0) hi = mid; else lo = mid + 1; }
  return NULL;
}
static void vh_qsort_crystal(void *base, size_t n, int (*cmp)(const void *, const void *)) {
  Crystal_Struct *b = (Crystal_Struct *)base;
  for (size_t i = 1; i < n; i++) { size_t j = i; while (j > 0 && cmp(&b[j - 1], &b[j]) > 0) { Crystal_Struct t = b[j - 1]; b[j - 1] = b[j]; b[j] = t; j--; } }
}
static void *vh_memcpy_atoms(void *d, const void *s_, size_t n) {
  Crystal_Atom *dd = (Crystal_Atom *)d; const Crystal_Atom *ss = (const Crystal_Atom *)s_;
  __CPROVER_assert(n % sizeof(Crystal_Atom) == 0, "memcpy in crystal_diffraction.c copies whole atoms");
  for (size_t k = 0; k < n / sizeof(Crystal_Atom); k++) dd[k] = ss[k];
  return d;
}
char *strerror(int e) { (void)e; return "E"; }
#define memcpy(d, s, n) vh_memcpy_atoms(d, s, n)
#define bsearch(key, base, n, size, cmp) vh_bsearch_crystal(key, base, n, cmp)
#define qsort(base, n, size, cmp) vh_qsort_crystal(base, n, cmp)
#define fopen(a, b) vh_fopen(a, b)
#define fclose(a) vh_fclose(a)
#undef feof
#define feof(a) vh_feof(a)
#define fgets(a, b, c) vh_fgets(a, b, c)
#define ftell(a) vh_ftell(a)
#define fseek(a, b, c) vh_fseek(a, b, c)
#define sscanf(...) VH_CAT(vh_sscanf, VH_NARG(__VA_ARGS__))(__VA_ARGS__)
#define fscanf(...) vh_fscanf_a(__VA_ARGS__)
#include "crystal_diffraction.c"
#undef bsearch
#undef qsort
#undef memcpy
#undef fopen
#undef fclose
#undef feof
#undef fgets
#undef ftell
#undef fseek
#undef sscanf
#undef fscanf

#define NAMEMAX 3
#define PRE_MAX 2
double cos(double x) { (void)x; return 0.0; }
double sin(double x) { (void)x; return 0.0; }
double pow(double x, double y) { (void)x; (void)y; return 0.0; }
double sqrt(double x) { return x; }
static Crystal_Struct builtin_store[2];
Crystal_Array Crystal_arr = {0, 2, builtin_store};

static double vh_len(void) { static const double g[4] = {1.0, 2.0, 3.0, 4.0}; return g[nondet_uint() & 3u]; }   /* lengths on a small exact grid: they are only copied and multiplied by 1 */
static void mk_entry(Crystal_Struct *e, int k) {
  char *s = malloc(NAMEMAX); ASSUME(s != NULL); s[0] = (char)('b' + 2 * k); s[1] = 0; s[2] = 0; e->name = s;          /* pre-existing entries are named "b", "d" (concrete) */
  e->a = vh_len(); e->b = 1.0; e->c = 1.0; e->alpha = 90.0; e->beta = 90.0; e->gamma = 90.0;
  e->volume = nondet_double(); ASSUME(!isnan(e->volume));
  e->n_atom = 0; e->atom = malloc(0); ASSUME(e->atom != NULL);
}
static int sorted_valid(const Crystal_Array *a, int upto) {
  if (a->n_crystal < 0 || a->n_crystal > a->n_alloc) return 0;
  for (int k = 0; k + 1 < upto && k + 1 < a->n_crystal; k++) if (strcmp(a->crystal[k].name, a->crystal[k + 1].name) >= 0) return 0;
  return 1;
}
#ifndef SHAPE_NA
#define SHAPE_NA 1
#define SHAPE_N 1
#endif
extern const char vh_file_name; void vh_run_files(void);      /* c14_read_tramp.c: one call of one_file() with literal arguments per file of the batch */

void one_file(int nlines, long id, int last_nl) {
  /* pre-state: arbitrary valid user array of the given shape */
  Crystal_Array *a = malloc(sizeof(Crystal_Array)); ASSUME(a != NULL);
  a->n_alloc = SHAPE_NA; a->n_crystal = SHAPE_N;
  a->crystal = SHAPE_NA ? malloc(sizeof(Crystal_Struct) * SHAPE_NA) : NULL; ASSUME(SHAPE_NA == 0 || a->crystal != NULL);
  for (int k = 0; k < PRE_MAX && k < SHAPE_N; k++) mk_entry(&a->crystal[k], k);
  ASSUME(sorted_valid(a, PRE_MAX + 1));
  char *names0[PRE_MAX + 1]; for (int k = 0; k < PRE_MAX && k < SHAPE_N; k++) names0[k] = a->crystal[k].name;
  /* the file */
  vh_f.nlines = nlines; vh_f.open = 0; vh_f.closed = 0; vh_last_nl = last_nl;
  for (int k = 0; k <= LINES_MAX; k++) {
    vh_f.kind[k] = (unsigned char)(k < nlines ? id % NKIND : K_TEXT); if (k < nlines) id /= NKIND;
    vh_name[k][0] = vh_file_name; vh_name[k][1] = 0; vh_name[k][2] = 0;        /* every '#S' line of the file carries the batch's name: below / equal to / above the existing "b" */
    vh_cell[k][0] = vh_len(); vh_cell[k][1] = 1.0; vh_cell[k][2] = 1.0; vh_cell[k][3] = 90.0; vh_cell[k][4] = 90.0; vh_cell[k][5] = 60.0 + 30.0 * (double)(k & 1);   /* cells differ per line */
    vh_atom[k].Zatom = nondet_int(); vh_atom[k].fraction = nondet_double(); vh_atom[k].x = nondet_double(); vh_atom[k].y = nondet_double(); vh_atom[k].z = nondet_double();
    ASSUME(!isnan(vh_atom[k].fraction) && !isnan(vh_atom[k].x) && !isnan(vh_atom[k].y) && !isnan(vh_atom[k].z));
  }
  xrl_error *err = NULL;
  int rv = Crystal_ReadFile("f", a, &err);
  CHECK(rv == 0 || rv == 1, "ReadFile returns 0 or 1");
  CHECK(vh_f.closed == 1 && !vh_f.open, "ReadFile: the file is closed exactly once on every path");
  if (rv == 0) {
    CHECK_ERR_SET(err, "ReadFile failed");
    CHECK(a->n_crystal == SHAPE_N, "ReadFile: a rejected file leaves the number of crystals as it was");
    for (int k = 0; k < PRE_MAX && k < SHAPE_N; k++) CHECK(k < a->n_crystal && a->crystal[k].name == names0[k], "ReadFile: a rejected file leaves every entry in place");
  } else {
    CHECK(err == NULL, "ReadFile: success leaves the error slot empty");
    CHECK(a->n_crystal >= SHAPE_N && a->n_crystal <= SHAPE_N + LINES_MAX && a->n_alloc >= a->n_crystal, "ReadFile: entries are only added; capacity sufficient");
    CHECK(sorted_valid(a, PRE_MAX + LINES_MAX + 1), "ReadFile: names strictly ascending afterwards (sorted, duplicates rejected)");
    for (int j = 0; j < PRE_MAX && j < SHAPE_N; j++) { int f = 0; for (int m = 0; m < PRE_MAX + LINES_MAX && m < a->n_crystal; m++) if (a->crystal[m].name == names0[j]) f = 1; CHECK(f, "ReadFile: every previous entry is still in the collection"); }
    for (int m = 0; m < PRE_MAX + LINES_MAX && m < a->n_crystal; m++) {
      const Crystal_Struct *e = &a->crystal[m]; int old = 0;
      for (int j = 0; j < PRE_MAX && j < SHAPE_N; j++) if (e->name == names0[j]) old = 1;
      if (old) continue;
      int okn = 0, okc = 0;
      for (int k = 0; k < LINES_MAX && k < nlines; k++) {
        if (vh_f.kind[k] == K_S_OK && e->name != NULL && e->name[0] == vh_name[k][0] && e->name[1] == vh_name[k][1]) okn = 1;
        if (vh_f.kind[k] == K_UCELL_OK && e->a == vh_cell[k][0] && e->b == vh_cell[k][1] && e->c == vh_cell[k][2] && e->alpha == vh_cell[k][3] && e->beta == vh_cell[k][4] && e->gamma == vh_cell[k][5]) okc = 1;
      }
      CHECK(okn, "ReadFile: a new entry is named by a '#S' line of the file");
      CHECK(okc, "ReadFile: a new entry has the cell of a '#UCELL' line of the file");
      CHECK(e->n_atom >= 0 && e->n_atom <= LINES_MAX && e->atom != NULL, "ReadFile: a new entry has an atom block");
      for (int t = 0; t < LINES_MAX && t < e->n_atom; t++) {
        int oka = 0;
        for (int k = 0; k < LINES_MAX && k < nlines; k++) if (vh_f.kind[k] == K_ATOM_OK && e->atom[t].Zatom == vh_atom[k].Zatom && e->atom[t].fraction == vh_atom[k].fraction && e->atom[t].x == vh_atom[k].x && e->atom[t].y == vh_atom[k].y && e->atom[t].z == vh_atom[k].z) oka = 1;
        CHECK(oka, "ReadFile: every atom of a new entry is an atom line of the file");
      }
      { double v = e->volume, w = Crystal_UnitCellVolume(e, NULL); CHECK(v == w || (isnan(v) && isnan(w)), "ReadFile: volume recomputed for every new entry"); }
    }
  }
  Crystal_ArrayFree(a);
  xrl_error_free(err);
}

void harness_readfile(void) {
  vh_run_files();
  VH_END();
}
/* the canonical well-formed file must be accepted: #S, #UCELL, #L, one atom, a terminating comment line */
void harness_readfile_canonical(void) {
  long id = K_S_OK + NKIND * (K_UCELL_OK + NKIND * (K_L + NKIND * (K_ATOM_OK + (long)NKIND * K_HASH)));
  Crystal_Array *a = Crystal_ArrayInit(0, NULL); ASSUME(a != NULL);
  vh_f.nlines = 5; vh_f.open = 0; vh_f.closed = 0; vh_last_nl = 1;
  for (int k = 0; k < 5; k++) { vh_f.kind[k] = (unsigned char)(id % NKIND); id /= NKIND; vh_name[k][0] = 'a'; vh_name[k][1] = 0; for (int j = 0; j < 6; j++) vh_cell[k][j] = 1.0; vh_atom[k].Zatom = 14; vh_atom[k].fraction = 1.0; vh_atom[k].x = vh_atom[k].y = vh_atom[k].z = 0.0; }
  xrl_error *err = NULL;
  int rv = Crystal_ReadFile("f", a, &err);
  CHECK(rv == 1 && err == NULL && a->n_crystal == 1, "ReadFile: the canonical single-crystal file is accepted");
  if (a->n_crystal == 1) CHECK(a->crystal[0].n_atom == 1 && a->crystal[0].atom[0].Zatom == 14, "ReadFile: its atom list is the one atom line");
  Crystal_ArrayFree(a); xrl_error_free(err);
  VH_END();
}
