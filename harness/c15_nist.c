/* C15 (NIST compound catalogue): lookup by index, by name and the name list describe the same entries; entries well formed;
 * every lookup hands out an independent deep copy; nothing leaks.  The real unit is #included so that its static catalogue
 * is visible; the catalogue index is symbolic. */
#define VH_REAL_STRDUP
#define VH_SEARCH_MODELS
#include "vh.h"
#include "xraylib-nist-compounds.c"

#define NL nCompoundDataNISTList
#ifndef MAXEL
#define MAXEL 32
#endif

static int same_str(const char *a, const char *b) {
  for (int k = 0; k < VH_STRMAX; k++) { if (a[k] != b[k]) return 0; if (a[k] == 0) return 1; }
  return 0;
}

static void one_byindex(int i) {
  xrl_error *err = NULL;
  struct compoundDataNIST *r = GetCompoundDataNISTByIndex(i, &err);
  const struct compoundDataNIST *e = &compoundDataNISTList[i];
  CHECK(r != NULL && err == NULL, "ByIndex: valid index succeeds with an empty error slot");
  if (r != NULL) {
    CHECK(same_str(r->name, e->name), "ByIndex: name of entry i");
    CHECK(r->nElements == e->nElements && r->density == e->density, "ByIndex: element count and density of entry i");
    for (int k = 0; k < MAXEL && k < e->nElements; k++)
      CHECK(r->Elements[k] == e->Elements[k] && r->massFractions[k] == e->massFractions[k], "ByIndex: elements and mass fractions of entry i");
    CHECK(r->name != e->name && r->Elements != e->Elements && r->massFractions != e->massFractions, "ByIndex: deep copy (fresh storage)");
    r->Elements[0] = -7; r->massFractions[0] = -1.0; r->name[0] = '#';
    CHECK(e->Elements[0] != -7 && e->massFractions[0] != -1.0 && e->name[0] != '#', "ByIndex: the copy is independent of the catalogue");
    FreeCompoundDataNIST(r);
  }
  xrl_error_free(err);
}

void harness_nist_byindex(void) {
  /* every catalogue entry (the catalogue is a finite constant table: the loop index is concrete, symex folds the constants) */
  for (int i = 0; i < NL; i++) one_byindex(i);
  /* every other int */
  IN_INT(j); ASSUME(j < 0 || j >= NL);
  xrl_error *err = NULL;
  struct compoundDataNIST *r = GetCompoundDataNISTByIndex(j, &err);
  CHECK(r == NULL, "ByIndex: out-of-range index returns NULL");
  CHECK_ERR_INVALID_ARG(err, "ByIndex out of range");
  xrl_error_free(err);
  VH_END();
}

static void one_wellformed(int i) {
  const struct compoundDataNIST *e = &compoundDataNISTList[i];
  CHECK(e->nElements >= 1 && e->nElements <= MAXEL, "entry: at least one element");
  CHECK(e->density > 0.0, "entry: positive density");
  CHECK(e->name != NULL && e->name[0] != 0, "entry: non-empty name");
  double sum = 0.0;
  for (int k = 0; k < MAXEL && k < e->nElements; k++) {
    CHECK(e->Elements[k] >= 1 && e->Elements[k] <= MENDEL_MAX, "entry: atomic numbers within 1..107");
    if (k > 0) CHECK(e->Elements[k] > e->Elements[k - 1], "entry: elements strictly ascending");
    CHECK(e->massFractions[k] > 0.0, "entry: positive mass fractions");
    sum += e->massFractions[k];
  }
  CHECK(sum > 1.0 - 1e-4 && sum < 1.0 + 1e-4, "entry: mass fractions sum to 1 (file precision 1e-6 per term)");
}
void harness_nist_wellformed(void) { for (int i = 0; i < NL; i++) one_wellformed(i); VH_END(); }

static void one_byname(int i) {
  const struct compoundDataNIST *e = &compoundDataNISTList[i];
  xrl_error *err = NULL;
  struct compoundDataNIST *r = GetCompoundDataNISTByName(e->name, &err);
  CHECK(r != NULL && err == NULL, "ByName(name of entry i) succeeds");
  if (r != NULL) {
    CHECK(same_str(r->name, e->name), "ByName: returns the entry of that name");
    CHECK(r->nElements == e->nElements && r->density == e->density, "ByName: same entry as ByIndex(i) (names are unique)");
    for (int k = 0; k < MAXEL && k < e->nElements; k++)
      CHECK(r->Elements[k] == e->Elements[k] && r->massFractions[k] == e->massFractions[k], "ByName: elements and fractions of entry i");
    CHECK(r->Elements != e->Elements && r->massFractions != e->massFractions && r->name != e->name, "ByName: deep copy");
    FreeCompoundDataNIST(r);
  }
  xrl_error_free(err);
}
void harness_nist_byname(void) { for (int i = 0; i < NL; i++) one_byname(i); VH_END(); }

void harness_nist_byname_fail(void) {
  /* NULL and a name that is in nobody's catalogue: NULL + one error, nothing leaked */
  xrl_error *err = NULL;
  struct compoundDataNIST *r = GetCompoundDataNISTByName(NULL, &err);
  CHECK(r == NULL, "ByName(NULL) returns NULL"); CHECK_ERR_INVALID_ARG(err, "ByName(NULL)");
  xrl_error_free(err); err = NULL;
  char key[3]; IN_CHAR(c0); key[0] = c0; key[1] = '\x01'; key[2] = 0;   /* no catalogue name contains byte 0x01 */
  r = GetCompoundDataNISTByName(key, &err);
  CHECK(r == NULL, "ByName(unknown) returns NULL"); CHECK_ERR_INVALID_ARG(err, "ByName(unknown)");
  xrl_error_free(err);
  VH_END();
}

void harness_nist_list(void) {
  xrl_error *err = NULL; int n = -1;
  char **l = GetCompoundDataNISTList(&n, &err);
  CHECK(l != NULL && err == NULL && n == NL, "list: length equals the catalogue size");
  for (int i = 0; i < NL; i++) {
    CHECK(same_str(l[i], compoundDataNISTList[i].name), "list[i] is the name of entry i (same order as ByIndex)");
    CHECK(l[i] != compoundDataNISTList[i].name, "list entries are copies");
  }
  CHECK(l[NL] == NULL, "list is NULL terminated");
  for (int k = 0; k < NL; k++) xrlFree(l[k]);
  xrlFree(l);
  VH_END();
}
