/* C07, part A: ONE nesting level of the real formula scanner CompoundParserSimple (src/xraylib-parser.c, #included) against a
 * reference written from the documented grammar, for EVERY NUL-terminated string of at most LMAX bytes.
 * Modular (assume/guarantee) treatment of nesting: the check replaces every call to CompoundParserSimple inside this unit by
 * cps_stub (goto-instrument --replace-calls) and enters the real body through a trampoline linked afterwards (c07_tramp.c).
 * cps_stub returns ANY result the function's own contract allows (failure + one error, or a strictly ascending element list with
 * positive counts) and logs it; the reference uses the logged results for the groups.  By induction on nesting depth the
 * one-level verdict extends to every depth (DESIGN.md C07).
 * The element table is abstract (any injective partial map on 1-2 letter symbols; the real table lookup is C07/symbols). */
#define VH_NO_STRDUP_MODEL
#define VH_STRMAX 8
#include "vh.h"
#include <ctype.h>
#include <locale.h>
#include "xrayglob.h"
#ifndef LMAX
#define LMAX 3
#endif
#define GMAX 2   /* bracket groups per level */
#define EMAX 2   /* elements in a group result */
#define NSYM 4   /* distinct symbols per level */
#define NEL (LMAX + 1) /* one element per character at most (a group of two characters yields at most EMAX = 2) */

/* CASE SPLIT BY SHAPE.  A shape fixes the character CLASS at every position (upper, lower, digit, '.', '(', ')', ' ', other);
 * every character is the representative of its class ('A' 'a' '7' '0' . ( ) space '#'): the scanner distinguishes characters only
 * by class and by comparison with the punctuation, and what a symbol or a subscript DENOTES is symbolic (abstract element table and
 * abstract text->number map, both indexed by position).  The scanner's control flow depends on the classes only, so with
 * a concrete shape CBMC's symbolic execution folds it (one feasible path) and the solver decides the data: every character of
 * the class pattern, every element table, every nested result.  All 8^n shapes of every length n <= LMAX are enumerated by the
 * check in batches (the enumeration is a case split of the input space, each case is decided by the solver).
 * ctype: C/POSIX locale, ASCII (the parser never sets LC_CTYPE; bytes >= 0x80 are class "other").  The class of a character
 * expression is looked up by its POSITION in the formula (the macros receive the lvalue), which symbolic execution folds. */
enum { CU, CL, CD, CZ, CDOT, COPEN, CCLOSE, CSPACE, COTHER, CEND };
#define NCLASS 9
static const char *vh_base; static unsigned char vh_cls[LMAX + 2];
static int vh_pos(const char *p) { long d = p - vh_base; __CPROVER_assert(d >= 0 && d <= LMAX, "ctype model: the character tested lies inside the formula"); return (int)d; }
#undef isupper
#undef islower
#undef isdigit
#define isupper(c) (vh_cls[vh_pos(&(c))] == CU)
#define islower(c) (vh_cls[vh_pos(&(c))] == CL)
#define isdigit(c) (vh_cls[vh_pos(&(c))] == CD || vh_cls[vh_pos(&(c))] == CZ)

/* error objects in O(1) (the error module itself is C03's harness) */
void xrl_set_error_literal(xrl_error **err, xrl_error_code code, const char *message) {
  __CPROVER_assert(message != NULL && message[0] != 0, "error message is a non-empty literal");
  if (err == NULL) return;
  __CPROVER_assert(*err == NULL, "no error is stored over an existing one");
  xrl_error *e = malloc(sizeof(xrl_error)); __CPROVER_assume(e != NULL);
  e->code = code; e->message = malloc(2); __CPROVER_assume(e->message != NULL); e->message[0] = message[0]; e->message[1] = 0;
  *err = e;
}
void xrl_set_error(xrl_error **err, xrl_error_code code, const char *format, ...) { xrl_set_error_literal(err, code, format); }
void xrl_error_free(xrl_error *e) { if (e == NULL) return; free(e->message); free(e); }
static int vh_src_pos = -1, vh_src_len = 0;       /* where in the formula the last duplicated text came from (concrete) */
char *strndup(const char *s, size_t n) {
  char *r = malloc(VH_STRMAX); __CPROVER_assume(r != 0);
  long d = s - vh_base; vh_src_pos = (d >= 0 && d <= LMAX) ? (int)d : -1; vh_src_len = (int)n;
  int done = 0;
  for (size_t i = 0; i < VH_STRMAX; i++) { if (i >= n || i >= VH_STRMAX - 1 || s[i] == 0) done = 1; r[i] = done ? 0 : s[i]; }
  return r;
}
char *strdup(const char *s) { return strndup(s, VH_STRMAX - 1); }
char *xrl_strdup(const char *s) { return strdup(s); }
char *xrl_strndup(const char *s, size_t n) { return strndup(s, n); }
char *setlocale(int cat, const char *name) { (void)cat; (void)name; return "C"; }    /* locale handling is C07/assemble */

/* strtod: the TEXT -> VALUE map is abstract (the C library's conversion is not the subject): the subscript text that starts at
 * formula position p denotes an arbitrary double vh_val[p] in [2^-10, 2^10], exactly 0 when all its digits are '0'.  What IS
 * modelled exactly is how far strtod reads: digits* ('.' digits*)? with at least one digit, else nothing. */
static double vh_val[LMAX + 2];
static int vh_numlen(int p, int *allzero) {
  int k = 0, digits = 0, nz = 0;
  while (p + k <= LMAX && (vh_cls[p + k] == CD || vh_cls[p + k] == CZ)) { digits++; if (vh_cls[p + k] == CD) nz = 1; k++; }
  if (p + k <= LMAX && vh_cls[p + k] == CDOT) { int k2 = k + 1, d2 = 0; while (p + k2 <= LMAX && (vh_cls[p + k2] == CD || vh_cls[p + k2] == CZ)) { d2++; if (vh_cls[p + k2] == CD) nz = 1; k2++; }
    if (digits + d2 > 0) { k = k2; digits += d2; } }
  *allzero = !nz;
  return digits ? k : 0;
}
double strtod(const char *s, char **end) {
  __CPROVER_assert(vh_src_pos >= 0, "strtod model: the text was copied out of the formula");
  int az; int len = vh_numlen(vh_src_pos, &az); if (len > vh_src_len) len = vh_src_len;
  if (end) *end = (char *)s + len;
  return (len == 0 || az) ? 0.0 : vh_val[vh_src_pos];
}

/* abstract element table */
/* the symbol text starting at formula position p with length len (1 or 2) denotes an arbitrary element or none */
static struct MendelElement vh_ent[LMAX + 2][2]; static int vh_known[LMAX + 2][2];
static struct MendelElement *vh_lookup_at(int p, int len) {
  __CPROVER_assert(p >= 0 && p <= LMAX && (len == 1 || len == 2), "symbol lookup model: a 1-2 character text copied out of the formula");
  return vh_known[p][len - 1] ? &vh_ent[p][len - 1] : NULL;
}
struct compoundAtom;
static void *vh_bsearch(const void *key, const void *base, size_t n, size_t size, int (*cmp)(const void *, const void *));
static void vh_qsort(void *base, size_t n, size_t size, int (*cmp)(const void *, const void *));
/* realloc of the growing arrays: TYPED blocks of fixed capacity (an untyped byte block with symbolic offsets makes CBMC's flattening
 * of the struct accesses explode).  A block that already has the capacity grows in place; a smaller one (the one-element malloc of
 * the first element) is moved: new block, contents copied, old block freed - both legal realloc behaviours.  Capacity is checked. */
#define VH_CAP (NEL + 2)
struct compoundAtom *vh_atoms_alloc(void);
#define realloc(p, n) ({ __typeof__(p) vh_old = (p); size_t vh_n = (n); __typeof__(p) vh_new; \
    __CPROVER_assert(vh_n <= VH_CAP * sizeof(*vh_old), "realloc model: request within the fixed capacity"); \
    if (vh_old != 0 && __CPROVER_OBJECT_SIZE(vh_old) >= VH_CAP * sizeof(*vh_old)) vh_new = vh_old; \
    else { vh_new = malloc(VH_CAP * sizeof(*vh_old)); __CPROVER_assume(vh_new != 0); \
      if (vh_old != 0) { for (size_t vh_i = 0; vh_i < __CPROVER_OBJECT_SIZE(vh_old) / sizeof(*vh_old) && vh_i < VH_CAP; vh_i++) vh_new[vh_i] = vh_old[vh_i]; free(vh_old); } } \
    vh_new; })
/* the one-element malloc of the first element gets the full capacity at once (recognised by its source text; any other request,
 * including that one if the text changes, goes to the ordinary malloc and the realloc model above moves it when it has to grow) */
#define malloc(n) ((sizeof(#n) == sizeof("sizeof(struct compoundAtom)")) ? (void *)vh_atoms_alloc() : (malloc)(n))
#define bsearch(key, base, n, size, cmp) vh_bsearch(key, base, n, size, cmp)
#define qsort(base, n, size, cmp) vh_qsort(base, n, size, cmp)
#include "xraylib-parser.c"
#undef bsearch
#undef qsort
#undef realloc
#undef malloc
struct compoundAtom *vh_atoms_alloc(void) { struct compoundAtom *p = malloc(sizeof(struct compoundAtom) * VH_CAP); __CPROVER_assume(p != 0); return p; }

static void *vh_bsearch(const void *key, const void *base, size_t n, size_t size, int (*cmp)(const void *, const void *)) {
  if (cmp == matchMendelElement) return vh_lookup_at(vh_src_pos, vh_src_len);   /* element symbol -> abstract table */
  const struct compoundAtom *b = (const struct compoundAtom *)base; size_t lo = 0, hi = n;
  while (lo < hi) { size_t mid = lo + (hi - lo) / 2; int c = cmp(key, &b[mid]); if (c == 0) return (void *)&b[mid]; if (c < 0) hi = mid; else lo = mid + 1; }
  return NULL;
}
static void vh_qsort(void *base, size_t n, size_t size, int (*cmp)(const void *, const void *)) {
  /* every qsort call of this unit sorts an ascending array with ONE element appended: the precondition is CHECKED, then a single
   * insertion pass with the real comparator is exactly what any correct qsort produces */
  if (size == sizeof(struct compoundAtom)) {
    struct compoundAtom *b = (struct compoundAtom *)base;
    for (size_t i = 1; i + 1 < n; i++) __CPROVER_assert(cmp(&b[i - 1], &b[i]) < 0, "qsort model: all but the last element are already strictly ascending");
    size_t j = n ? n - 1 : 0; while (j > 0 && cmp(&b[j - 1], &b[j]) > 0) { struct compoundAtom t = b[j - 1]; b[j - 1] = b[j]; b[j] = t; j--; }
  } else {
    int *b = (int *)base;
    for (size_t i = 1; i < n; i++) { size_t j = i; while (j > 0 && cmp(&b[j - 1], &b[j]) > 0) { int t = b[j - 1]; b[j - 1] = b[j]; b[j] = t; j--; } }
  }
}
double AtomicWeight(int Z, xrl_error **error) { (void)Z; (void)error; return 1.0; }   /* not reached from the scanner */

/* numeric values (subscripts, counts returned by nested calls): by default drawn from the grid {0.5, 1.0, ..., 8.0}.  On the grid every
 * sum and product the scanner forms is exact in binary floating point, so the comparison with the reference decides the REAL-valued
 * identity (counts are multilinear in these values: an identity that holds for >= 2 grid values per variable holds for all reals);
 * rounding order is not the subject.  -DVH_FULL_DOUBLES draws arbitrary doubles in [2^-10, 2^10] instead (thorough tier, slower). */
static double vh_grid_value(void) {
#ifdef VH_FULL_DOUBLES
  double v = nondet_double(); __CPROVER_assume(v >= 0.0009765625 && v <= 1024.0); return v;
#else
  static const double grid[16] = {0.5, 1.0, 1.5, 2.0, 2.5, 3.0, 3.5, 4.0, 4.5, 5.0, 5.5, 6.0, 6.5, 7.0, 7.5, 8.0};
  return grid[nondet_uint() & 15u];
#endif
}

/* ---- the contract of one nested call, logged */
static int vh_gout[GMAX]; static int g_n = 0; static int g_ok[GMAX]; static int g_ne[GMAX]; static int g_Z[GMAX][EMAX]; static double g_N[GMAX][EMAX]; static char g_str[GMAX][LMAX + 1];
int cps_stub(char s[], struct compoundAtoms *ca, xrl_error **error) {
  __CPROVER_assert(g_n < GMAX, "harness bound: at most GMAX groups per level");
  int k = g_n++;
  __CPROVER_assert(ca != NULL && ca->nElements == 0 && ca->singleElements == NULL, "nested call: starts from an empty element list");
  int done = 0;
  for (int i = 0; i <= LMAX; i++) { if (!done && s[i] == 0) done = 1; g_str[k][i] = done ? 0 : s[i]; }
  /* the OUTCOME of the nested call is part of the case split (concrete): 0 rejected, nothing built; 1 rejected, partial list left
   * behind; 2 accepted with one element; 3 accepted with two.  Elements and counts are symbolic. */
  int out = vh_gout[k];
  g_ok[k] = out >= 2;
  if (!g_ok[k]) {
    xrl_set_error_literal(error, XRL_ERROR_INVALID_ARGUMENT, "nested formula rejected");
    if (out == 1) { ca->singleElements = vh_atoms_alloc(); ca->nElements = 1; ca->singleElements[0].Element = 1; ca->singleElements[0].nAtoms = 1.0; }
    return 0;
  }
  int ne = out - 1;
  g_ne[k] = ne;
  ca->singleElements = vh_atoms_alloc();
  for (int j = 0; j < EMAX; j++) {
    int z = nondet_int(); double v = vh_grid_value();
    __CPROVER_assume(z >= 1 && z <= MENDEL_MAX && (j == 0 || z > g_Z[k][j - 1]));
    g_Z[k][j] = z; g_N[k][j] = v;
    if (j < ne) { ca->singleElements[j].Element = z; ca->singleElements[j].nAtoms = v; }
  }
  ca->nElements = ne;
  return 1;
}

/* ---- reference for one level, from the documented grammar:
 *   formula := item+ ;  item := Symbol number? | '(' balanced ')' number? ;  Symbol := Upper Lower? (known element)
 *   number  := digits with at most one '.', at least one digit, value non-zero
 * counts are accumulated as the documented algebraic expansion: element terms first, then groups, in order of appearance
 * (floating-point addition is not associative: the order is fixed to the implementation's so that equality can be exact) */
static int rZ[NEL]; static double rN[NEL]; static int rn;
static void r_add(int z, double v) { for (int k = 0; k < NEL && k < rn; k++) if (rZ[k] == z) { rN[k] += v; return; } __CPROVER_assert(rn < NEL, "harness bound: NEL"); rZ[rn] = z; rN[rn] = v; rn++; }
static int r_number(int p, int *used, double *val) {
  /* documented grammar: digits with at most one '.', at least one digit, value non-zero */
  int n = 0, dots = 0, digits = 0;
  while (p + n <= LMAX && (vh_cls[p + n] == CD || vh_cls[p + n] == CZ || vh_cls[p + n] == CDOT)) { if (vh_cls[p + n] == CDOT) dots++; else digits++; n++; }
  *used = n; *val = 1.0;
  if (n == 0) return 1;
  if (dots > 1 || digits == 0) return 0;
  int az; int len = vh_numlen(p, &az);
  if (len != n || az) return 0;
  *val = vh_val[p]; return 1;
}
static int r_level(const char *s) {
  int eZ[LMAX + 1]; double eN[LMAX + 1]; int ne = 0;
  int gb[GMAX + 1], ge[GMAX + 1]; double gm[GMAX + 1]; int ng = 0;
  int p = 0;
  for (int guard = 0; guard <= LMAX && vh_cls[p] != CEND; guard++) {
    if (vh_cls[p] == CU) {
      int p0 = p, sl = 1; p++;
      if (vh_cls[p] == CL) { sl = 2; p++; }
      int used; double v; if (!r_number(p, &used, &v)) return 0; p += used;
      struct MendelElement *e = vh_lookup_at(p0, sl); if (e == NULL) return 0;
      eZ[ne] = e->Zatom; eN[ne] = v; ne++;
    } else if (vh_cls[p] == COPEN) {
      int depth = 1, q = p + 1;
      for (int g2 = 0; g2 <= LMAX && vh_cls[q] != CEND && depth > 0; g2++) { if (vh_cls[q] == COPEN) depth++; else if (vh_cls[q] == CCLOSE) depth--; if (depth > 0) q++; }
      if (depth != 0) return 0;
      if (ng >= GMAX) return -1;                       /* outside the harness bound: this shape is skipped */
      gb[ng] = p + 1; ge[ng] = q; p = q + 1;
      int used; double v; if (!r_number(p, &used, &v)) return 0; p += used;
      gm[ng] = v; ng++;
    } else return 0;
  }
  if (ne + ng == 0) return 0;
  rn = 0;
  for (int k = 0; k < LMAX + 1 && k < ne; k++) r_add(eZ[k], eN[k]);
  for (int k = 0; k < GMAX && k < ng; k++) {
    /* the k-th nested call must have been made on exactly the text between the brackets */
    CHECK(k < g_n, "a nested call is made for every group");
    if (k >= g_n) return 0;
    int same = 1; for (int i = 0; i <= LMAX; i++) { char want = (gb[k] + i < ge[k]) ? s[gb[k] + i] : 0; if (g_str[k][i] != want) same = 0; }
    CHECK(same, "nested call receives exactly the text between the matching brackets");
    if (!g_ok[k]) return 0;
    for (int j = 0; j < EMAX && j < g_ne[k]; j++) r_add(g_Z[k][j], g_N[k][j] * gm[k]);
  }
  return 1;
}

int vh_real_cps(char *s, struct compoundAtoms *ca, xrl_error **error);      /* trampoline to the REAL body (c07_tramp.c) */

static int vh_ngroups_toplevel(int n) { int d = 0, g = 0; for (int k = 0; k < LMAX && k < n; k++) { if (vh_cls[k] == COPEN) { if (d == 0) g++; d++; } else if (vh_cls[k] == CCLOSE) { if (d > 0) d--; } } return g; }

static void one_shape(int n, long id, int gout) {
  char s[LMAX + 2];
  /* decode the shape (concrete) and draw every character from its class (symbolic) */
  for (int k = 0; k <= LMAX + 1; k++) { vh_cls[k] = CEND; if (k <= LMAX) s[k] = 0; }
  static const char rep[NCLASS] = {'A', 'a', '7', '0', '.', '(', ')', ' ', '#'};
  for (int k = 0; k < LMAX && k < n; k++) { int c = (int)(id % NCLASS); id /= NCLASS; vh_cls[k] = (unsigned char)c; s[k] = rep[c]; }
  for (int k = 0; k <= LMAX + 1; k++) {
    vh_val[k] = vh_grid_value();
    for (int l = 0; l < 2; l++) { int z = nondet_int(); __CPROVER_assume(z >= 1 && z <= MENDEL_MAX); vh_ent[k][l].Zatom = z; vh_ent[k][l].name = NULL; vh_known[k][l] = nondet_bool(); }
  }
  if (vh_ngroups_toplevel(n) > GMAX) return;            /* harness bound: at most GMAX groups per level (shape skipped, counted by the check) */
  for (int k = 0; k < GMAX; k++) { vh_gout[k] = gout % 4; gout /= 4; }
  vh_base = s; g_n = 0; rn = 0; vh_src_pos = -1;
  char orig[LMAX + 1]; for (int k = 0; k <= LMAX; k++) orig[k] = s[k];
  struct compoundAtoms ca; ca.nElements = 0; ca.singleElements = NULL;
  xrl_error *err = NULL; xrl_error **slot = nondet_bool() ? &err : NULL;
  int rv = vh_real_cps(s, &ca, slot);
  for (int k = 0; k <= LMAX; k++) CHECK(orig[k] == s[k], "the formula text is not modified");
  int ok = r_level(s);
  CHECK((rv != 0) == (ok != 0), "one level: accepts exactly the well-formed formulas over known elements whose groups are accepted");
  CHECK(rv == 0 || rv == 1, "returns 0 or 1");
  if (rv) {
    CHECK(err == NULL, "success leaves the error slot empty");
    CHECK(ca.nElements >= 1 && ca.nElements <= NEL && ca.singleElements != NULL, "success: non-empty element list");
    if (ok) {
      CHECK(ca.nElements == rn, "number of distinct elements equals that of the algebraic expansion");
      for (int k = 0; k < NEL && k < ca.nElements; k++) {
        if (k > 0) CHECK(ca.singleElements[k].Element > ca.singleElements[k - 1].Element, "elements strictly ascending, no duplicates");
        CHECK(ca.singleElements[k].nAtoms > 0.0, "atom counts positive");
        int f = 0;
        for (int m = 0; m < NEL && m < rn; m++) if (rZ[m] == ca.singleElements[k].Element) { f = 1; CHECK(ca.singleElements[k].nAtoms == rN[m], "atom count equals the algebraic expansion (group results scaled by the multiplier, repeated elements added)"); }
        CHECK(f, "only elements of the formula are reported");
      }
    }
  } else if (slot) { CHECK_ERR_INVALID_ARG(err, "rejection"); }
  /* ownership: the caller releases the element list (as CompoundParser does) and the error; everything else must be gone */
  if (ca.singleElements) free(ca.singleElements);
  xrl_error_free(err);
}

/* a batch of shapes: vh_shape_n characters, ids vh_shape_from .. vh_shape_from + vh_shape_count - 1; the three constants are
 * defined in c07_tramp.c (compiled per batch, this unit is compiled and instrumented once); the loop is concrete, each shape is
 * folded separately by symbolic execution */
extern const int vh_shape_n; extern const long vh_shape_from, vh_shape_count;
void harness_shapes(void) {
  for (long id = vh_shape_from; id < vh_shape_from + vh_shape_count; id++) {
    /* classes first (to count the groups), then one run per combination of nested outcomes */
    long t = id; for (int k = 0; k <= LMAX + 1; k++) vh_cls[k] = CEND; for (int k = 0; k < LMAX && k < vh_shape_n; k++) { vh_cls[k] = (unsigned char)(t % NCLASS); t /= NCLASS; }
    int g = vh_ngroups_toplevel(vh_shape_n); if (g > GMAX) continue;
    int combos = g == 0 ? 1 : g == 1 ? 4 : 16;
    for (int go = 0; go < combos; go++) one_shape(vh_shape_n, id, go);
  }
  VH_END();
}
