/* C14: crystal collections stay consistent under any sequence of operations — one symbolic operation from an ARBITRARY valid
 * array state (inductive step).  Representation invariant I(arr): 0 <= n_crystal <= n_alloc; `crystal` holds n_alloc slots;
 * entries 0..n-1 have a NUL-terminated heap name, n_atom >= 0 and a heap atom block of n_atom atoms; names strictly ascending.
 * The unit under test is the real crystal_diffraction.c (#included below); libm gets cheap deterministic stand-ins. */
#define VH_REAL_STRDUP
#define VH_STRMAX 8
#include "vh.h"
#include "xrayglob.h"
/* the real unit, in this TU so that its static comparators are visible to the bsearch/qsort models;
 * Crystal_UnitCellVolume is renamed and replaced by the cheap deterministic stand-in below */
/* typed bsearch/qsort models for arrays of Crystal_Struct (real comparators from xrayvars.c): the generic byte-wise models make
 * CBMC's symbolic execution of struct arrays explode (measured: 65 GB) */
static void *vh_bsearch_crystal(const void *key, const void *base, size_t n, int (*cmp)(const void *, const void *)) {
  const Crystal_Struct *b = (const Crystal_Struct *)base; size_t lo = 0, hi = n;
  while (lo < hi) { size_t mid = lo + (hi - lo) / 2; int c = cmp(key, &b[mid]); if (c == 0) return (void *)&b[mid]; if (c < 0) hi = mid; else lo = mid + 1; }
  return NULL;
}
static void vh_qsort_crystal(void *base, size_t n, int (*cmp)(const void *, const void *)) {
  Crystal_Struct *b = (Crystal_Struct *)base;
  for (size_t i = 1; i < n; i++) { size_t j = i; while (j > 0 && cmp(&b[j - 1], &b[j]) > 0) { Crystal_Struct t = b[j - 1]; b[j - 1] = b[j]; b[j] = t; j--; } }
}
static void *vh_memcpy_atoms(void *d, const void *s_, size_t n) {      /* the unit only memcpy's atom blocks */
  Crystal_Atom *dd = (Crystal_Atom *)d; const Crystal_Atom *ss = (const Crystal_Atom *)s_;
  __CPROVER_assert(n % sizeof(Crystal_Atom) == 0, "memcpy in crystal_diffraction.c copies whole atoms");
  for (size_t k = 0; k < n / sizeof(Crystal_Atom); k++) dd[k] = ss[k];
  return d;
}
#define memcpy(d, s, n) vh_memcpy_atoms(d, s, n)
#define bsearch(key, base, n, size, cmp) vh_bsearch_crystal(key, base, n, cmp)
#define qsort(base, n, size, cmp) vh_qsort_crystal(base, n, cmp)
#include "crystal_diffraction.c"
#undef bsearch
#undef qsort
#undef memcpy

#define NAMEMAX 3          /* names of <= 2 bytes over {a,b,c} */
#define PRE_MAX 2          /* <= 2 pre-existing entries */
#define ATOM_MAX 1

/* libm is not the subject: cheap deterministic stand-ins make the REAL Crystal_UnitCellVolume evaluate to a*b*c (a value that
 * identifies the entry it was computed from) */
double cos(double x) { (void)x; return 0.0; }
double sin(double x) { (void)x; return 0.0; }
double pow(double x, double y) { (void)x; (void)y; return 0.0; }
double sqrt(double x) { return x; }
/* the built-in collection of this harness: fixed capacity 2, static storage */
static Crystal_Struct builtin_store[2];
Crystal_Array Crystal_arr = {0, 2, builtin_store};   /* (xrayglob.c, which defines the real one, is not linked) */

static char *mk_name(void) {
  char *s = malloc(NAMEMAX); ASSUME(s != NULL);
  for (int k = 0; k < NAMEMAX - 1; k++) { char c = nondet_char(); ASSUME(c == 0 || c == 'a' || c == 'b' || c == 'c'); s[k] = c; }
  s[NAMEMAX - 1] = 0;
  ASSUME(s[0] != 0);
  return s;
}
static void mk_entry_(Crystal_Struct *e, int simple) {
  e->name = mk_name();
  /* simple: b = c = 1 so that the volume a*b*c costs the SAT solver no floating-point multiplier (the add harnesses) */
  e->a = nondet_double(); e->b = simple ? 1.0 : nondet_double(); e->c = simple ? 1.0 : nondet_double(); e->alpha = nondet_double(); e->beta = nondet_double(); e->gamma = nondet_double();
  ASSUME(!isnan(e->a) && !isnan(e->b) && !isnan(e->c) && !isnan(e->alpha) && !isnan(e->beta) && !isnan(e->gamma) && !isinf(e->a));
  e->volume = nondet_double(); ASSUME(!isnan(e->volume));
  int na = nondet_int(); ASSUME(na >= 0 && na <= ATOM_MAX);
  e->n_atom = na;
  e->atom = malloc(sizeof(Crystal_Atom) * na); ASSUME(e->atom != NULL);
  for (int k = 0; k < ATOM_MAX && k < na; k++) {
    e->atom[k].Zatom = nondet_int(); e->atom[k].fraction = nondet_double(); e->atom[k].x = nondet_double(); e->atom[k].y = nondet_double(); e->atom[k].z = nondet_double();
    ASSUME(!isnan(e->atom[k].fraction) && !isnan(e->atom[k].x) && !isnan(e->atom[k].y) && !isnan(e->atom[k].z));
  }
}
#ifdef SIMPLE_GEOMETRY
#define mk_entry(e) mk_entry_(e, 1)
#else
#define mk_entry(e) mk_entry_(e, 0)
#endif
static int sorted_valid(const Crystal_Array *a) {
  if (a->n_crystal < 0 || a->n_crystal > a->n_alloc) return 0;
  for (int k = 0; k + 1 < PRE_MAX + 2 && k + 1 < a->n_crystal; k++) if (strcmp(a->crystal[k].name, a->crystal[k + 1].name) >= 0) return 0;
  return 1;
}
/* arbitrary valid user array */
static Crystal_Array *mk_array(void) {
  Crystal_Array *a = malloc(sizeof(Crystal_Array)); ASSUME(a != NULL);
#ifdef SHAPE_NA
  int na = SHAPE_NA, n = SHAPE_N;       /* capacity / fill level fixed per obligation (all shapes are enumerated by the check) */
#else
  int na = nondet_int(), n = nondet_int(); ASSUME(na >= 0 && na <= PRE_MAX && n >= 0 && n <= na);
#endif
  a->n_alloc = na; a->n_crystal = n;
  a->crystal = na ? malloc(sizeof(Crystal_Struct) * na) : NULL; ASSUME(na == 0 || a->crystal != NULL);
  for (int k = 0; k < PRE_MAX && k < n; k++) mk_entry(&a->crystal[k]);
  ASSUME(sorted_valid(a));
  return a;
}
static int same_entry(const Crystal_Struct *r, const Crystal_Struct *e) {
  if (strcmp(r->name, e->name) != 0) return 0;
  if (r->a != e->a || r->b != e->b || r->c != e->c || r->alpha != e->alpha || r->beta != e->beta || r->gamma != e->gamma || r->n_atom != e->n_atom) return 0;
  for (int k = 0; k < ATOM_MAX && k < e->n_atom; k++)
    if (r->atom[k].Zatom != e->atom[k].Zatom || r->atom[k].fraction != e->atom[k].fraction || r->atom[k].x != e->atom[k].x || r->atom[k].y != e->atom[k].y || r->atom[k].z != e->atom[k].z) return 0;
  return 1;
}
static int find(const Crystal_Array *a, const char *name) {
  for (int k = 0; k < PRE_MAX + 1 && k < a->n_crystal; k++) if (strcmp(a->crystal[k].name, name) == 0) return k;
  return -1;
}

void harness_init(void) {
  IN_INT(n); ASSUME(n <= 8);
  xrl_error *err = NULL;
  Crystal_Array *a = Crystal_ArrayInit(n, &err);
  if (n < 0) { CHECK(a == NULL, "ArrayInit: negative capacity is rejected"); CHECK_ERR_INVALID_ARG(err, "ArrayInit negative"); }
  else {
    CHECK(a != NULL && err == NULL, "ArrayInit: succeeds for capacity >= 0");
    if (a) { CHECK(a->n_crystal == 0 && a->n_alloc == n && (n == 0) == (a->crystal == NULL), "ArrayInit: empty array of the requested capacity"); CHECK(sorted_valid(a), "ArrayInit: invariant"); }
  }
  Crystal_ArrayFree(a);
  xrl_error_free(err);
  VH_END();
}

void harness_add(void) {
  Crystal_Array *a = mk_array();
  int n0 = a->n_crystal, na0 = a->n_alloc;
  char *names0[PRE_MAX]; for (int k = 0; k < PRE_MAX && k < n0; k++) names0[k] = a->crystal[k].name;
  Crystal_Struct c; mk_entry(&c);
  IN_INT(usenull);
  int dup = find(a, c.name);
  xrl_error *err = NULL;
  int rv = Crystal_AddCrystal(usenull ? NULL : &c, a, &err);
  if (usenull || dup >= 0) {
    CHECK(rv == 0, "AddCrystal: NULL crystal or duplicate name is rejected"); CHECK_ERR_SET(err, "AddCrystal rejected");
    CHECK(a->n_crystal == n0 && a->n_alloc == na0, "AddCrystal: a rejected addition leaves the collection as it was");
    for (int k = 0; k < PRE_MAX && k < n0; k++) CHECK(a->crystal[k].name == names0[k], "AddCrystal: rejected addition leaves every entry in place");
  } else {
    CHECK(rv == 1 && err == NULL, "AddCrystal: a new name is accepted (growing a full user array transparently)");
    CHECK(a->n_crystal == n0 + 1 && a->n_alloc >= a->n_crystal, "AddCrystal: one more entry, capacity sufficient");
    CHECK(n0 < na0 ? a->n_alloc == na0 : a->n_alloc == na0 + N_NEW_CRYSTAL, "AddCrystal: capacity grows only when full");
    CHECK(sorted_valid(a), "AddCrystal: invariant (names strictly ascending) on the caller's array object");
    int k = find(a, c.name);
    CHECK(k >= 0, "AddCrystal: the new crystal is retrievable by name");
    if (k >= 0) {
      CHECK(same_entry(&a->crystal[k], &c), "AddCrystal: stored entry has the given geometry and atoms");
      CHECK(a->crystal[k].name != c.name && (c.n_atom == 0 || a->crystal[k].atom != c.atom), "AddCrystal: the collection owns a copy");
      { double v = a->crystal[k].volume, w = Crystal_UnitCellVolume(&a->crystal[k], NULL);
        CHECK(v == w || (isnan(v) && isnan(w)), "AddCrystal: volume recomputed for the entry that was added"); }
    }
    for (int j = 0; j < PRE_MAX && j < n0; j++) {
      int found = 0;
      for (int m = 0; m < PRE_MAX + 1 && m < a->n_crystal; m++) if (a->crystal[m].name == names0[j]) found = 1;
      CHECK(found, "AddCrystal: every previous entry is still in the collection");
    }
  }
  Crystal_ArrayFree(a);
  free(c.name); free(c.atom);
  xrl_error_free(err);
  VH_END();
}

void harness_add_builtin(void) {
  /* built-in collection (c_array == NULL): fixed capacity; arbitrary fill level */
#ifdef SHAPE_N
  int n = SHAPE_N;
#else
  int n = nondet_int(); ASSUME(n >= 0 && n <= 2);
#endif
  Crystal_arr.n_crystal = n;
  for (int k = 0; k < 2 && k < n; k++) mk_entry(&Crystal_arr.crystal[k]);
  ASSUME(sorted_valid(&Crystal_arr));
  Crystal_Struct c; mk_entry(&c);
  int dup = find(&Crystal_arr, c.name);
  xrl_error *err = NULL;
  int rv = Crystal_AddCrystal(&c, NULL, &err);
  if (dup >= 0 || n == 2) {
    CHECK(rv == 0, "AddCrystal(built-in): duplicate or full collection is refused"); CHECK_ERR_SET(err, "AddCrystal built-in refused");
    CHECK(Crystal_arr.n_crystal == n && Crystal_arr.n_alloc == 2 && Crystal_arr.crystal == builtin_store, "AddCrystal(built-in): refused addition leaves the collection as it was");
  } else {
    CHECK(rv == 1 && err == NULL && Crystal_arr.n_crystal == n + 1 && Crystal_arr.crystal == builtin_store, "AddCrystal(built-in): explicit insertion below capacity succeeds in place");
    CHECK(sorted_valid(&Crystal_arr) && find(&Crystal_arr, c.name) >= 0, "AddCrystal(built-in): invariant and retrievability");
  }
  for (int k = 0; k < 3 && k < Crystal_arr.n_crystal; k++) { free(Crystal_arr.crystal[k].name); free(Crystal_arr.crystal[k].atom); }
  free(c.name); free(c.atom);
  xrl_error_free(err);
  VH_END();
}

void harness_get(void) {
  Crystal_Array *a = mk_array();
  char key[NAMEMAX]; for (int k = 0; k < NAMEMAX - 1; k++) { key[k] = nondet_char(); } key[NAMEMAX - 1] = 0;
  IN_INT(usenull);
  int k = usenull ? -1 : find(a, key);
  xrl_error *err = NULL;
  Crystal_Struct *r = Crystal_GetCrystal(usenull ? NULL : key, a, &err);
  if (k >= 0) {
    CHECK(r != NULL && err == NULL, "GetCrystal: a stored name is found");
    if (r) {
      CHECK(same_entry(r, &a->crystal[k]) && r->volume == a->crystal[k].volume, "GetCrystal: returns the entry of that name");
      CHECK(r != &a->crystal[k] && r->name != a->crystal[k].name && (r->n_atom == 0 || r->atom != a->crystal[k].atom), "GetCrystal: independent deep copy");
      Crystal_Free(r);
    }
  } else {
    CHECK(r == NULL, "GetCrystal: NULL or unknown name returns NULL"); CHECK_ERR_INVALID_ARG(err, "GetCrystal unknown");
  }
  Crystal_ArrayFree(a);
  xrl_error_free(err);
  VH_END();
}

void harness_list(void) {
  Crystal_Array *a = mk_array();
  xrl_error *err = NULL; int n = -1;
  char **l = Crystal_GetCrystalsList(a, &n, &err);
  CHECK(l != NULL && err == NULL && n == a->n_crystal, "GetCrystalsList: reports the number of crystals");
  if (l) {
    for (int k = 0; k < PRE_MAX && k < a->n_crystal; k++) CHECK(strcmp(l[k], a->crystal[k].name) == 0 && l[k] != a->crystal[k].name, "GetCrystalsList: copies of the names in sorted order");
    CHECK(l[a->n_crystal] == NULL, "GetCrystalsList: NULL terminated");
    for (int k = 0; k < PRE_MAX && k < a->n_crystal; k++) free(l[k]);
    free(l);
  }
  Crystal_ArrayFree(a);
  VH_END();
}

void harness_copy(void) {
  Crystal_Struct c; mk_entry(&c);
  IN_INT(usenull);
  xrl_error *err = NULL;
  Crystal_Struct *r = Crystal_MakeCopy(usenull ? NULL : &c, &err);
  if (usenull) { CHECK(r == NULL, "MakeCopy(NULL) returns NULL"); CHECK_ERR_INVALID_ARG(err, "MakeCopy(NULL)"); }
  else {
    CHECK(r != NULL && err == NULL, "MakeCopy succeeds");
    if (r) { CHECK(same_entry(r, &c) && r->volume == c.volume, "MakeCopy: equal contents"); CHECK(r->name != c.name && (c.n_atom == 0 || r->atom != c.atom), "MakeCopy: fresh storage"); Crystal_Free(r); }
  }
  Crystal_Free(NULL);
  free(c.name); free(c.atom);
  xrl_error_free(err);
  VH_END();
}

/* the two comparators (xrayvars.c) order by the FULL name: both agree with strcmp for names of up to CMPMAX bytes */
#define CMPMAX 24
static int sgn(int x) { return (x > 0) - (x < 0); }
void harness_comparators(void) {
  char a[CMPMAX + 1], b[CMPMAX + 1];
  for (int k = 0; k < CMPMAX; k++) { a[k] = nondet_char(); b[k] = nondet_char(); }
  a[CMPMAX] = 0; b[CMPMAX] = 0;
  int ref = 0;
  for (int k = 0; k <= CMPMAX; k++) { int x = a[k] & 0xFF, y = b[k] & 0xFF; if (x != y) { ref = x < y ? -1 : 1; break; } if (x == 0) break; }
  Crystal_Struct ca, cb; ca.name = a; cb.name = b;
  CHECK(sgn(matchCrystalStruct(a, &cb)) == ref, "lookup comparator orders by the full name (strcmp semantics)");
  CHECK(sgn(compareCrystalStructs(&ca, &cb)) == ref, "sort comparator orders by the full name (strcmp semantics)");
  VH_END();
}
