/* C01: scalar accessors return exactly the table cell named by (Z, macro) when it is positive,
 * else 0.0 with exactly one INVALID_ARGUMENT error.  Tables are owned by this TU and havocked:
 * the verdict holds for every table content (all data configurations) and every 32-bit (Z, macro). */
#include "vh.h"
#include "xrayglob.h"

double AtomicWeight_arr[ZMAX+1];
double ElementDensity_arr[ZMAX+1];
double EdgeEnergy_arr[ZMAX+1][SHELLNUM];
double LineEnergy_arr[ZMAX+1][LINENUM];
double FluorYield_arr[ZMAX+1][SHELLNUM];
double JumpFactor_arr[ZMAX+1][SHELLNUM];
double CosKron_arr[ZMAX+1][TRANSNUM];
double RadRate_arr[ZMAX+1][LINENUM];
double AtomicLevelWidth_arr[ZMAX+1][SHELLNUM];
double Electron_Config_Kissel[ZMAX+1][SHELLNUM_K];
double Auger_Rates[ZMAX+1][AUGERNUM];
double Auger_Yields[ZMAX+1][SHELLNUM_A];
int NShells_ComptonProfiles[ZMAX+1];
int Npz_ComptonProfiles[ZMAX+1];
double *UOCCUP_ComptonProfiles[ZMAX+1];
double *pz_ComptonProfiles[ZMAX+1];
double *Total_ComptonProfiles[ZMAX+1];
double *Total_ComptonProfiles2[ZMAX+1];
double *Partial_ComptonProfiles[ZMAX+1][SHELLNUM_C];
double *Partial_ComptonProfiles2[ZMAX+1][SHELLNUM_C];

/* Only the table under test is havocked; every other table keeps its zero initialiser, so a read of the wrong
 * table yields 0 (-> spurious error) where a positive cell was expected and is caught just the same. */

#define POST(fncall_noerr, r, err, ok, cell, name) do { \
    if (ok) { CHECK((err) == NULL, name ": success leaves the error slot empty"); \
              CHECK((r) == (cell), name ": returns the table cell of (Z, macro) bit-for-bit"); } \
    else { CHECK((r) == 0.0, name ": failure returns the 0.0 sentinel"); CHECK_ERR_INVALID_ARG(err, name); } \
    { double r2_ = fncall_noerr; CHECK(r2_ == (r), name ": error==NULL changes nothing but the reporting"); } \
    xrl_error_free(err); VH_END(); } while (0)

#define H1(fn, T) void harness_##fn(void) { \
    IN_INT(Z); xrl_error *err = NULL; HAVOC(T); \
    int inr = Z >= 1 && Z <= ZMAX; IN_DOUBLE(cell); \
    if (inr) { ASSUME(!isnan(cell)); T[Z] = cell; } \
    double r = fn(Z, &err); \
    POST(fn(Z, NULL), r, err, inr && cell > 0.0, cell, #fn); }

#define H2(fn, T, slotexpr, okexpr) void harness_##fn(void) { \
    IN_INT(Z); IN_INT(m); xrl_error *err = NULL; HAVOC(T); \
    long slot = (slotexpr); int inr = Z >= 1 && Z <= ZMAX && (okexpr); IN_DOUBLE(cell); \
    if (inr) { ASSUME(!isnan(cell)); T[Z][slot] = cell; } \
    double r = fn(Z, m, &err); \
    POST(fn(Z, m, NULL), r, err, inr && cell > 0.0, cell, #fn); }

H1(AtomicWeight, AtomicWeight_arr)
H1(ElementDensity, ElementDensity_arr)
H2(EdgeEnergy, EdgeEnergy_arr, m, m >= 0 && m < SHELLNUM)
H2(FluorYield, FluorYield_arr, m, m >= 0 && m < SHELLNUM)
H2(JumpFactor, JumpFactor_arr, m, m >= 0 && m < SHELLNUM)
H2(AtomicLevelWidth, AtomicLevelWidth_arr, m, m >= 0 && m < SHELLNUM)
H2(CosKronTransProb, CosKron_arr, m, m >= FL12_TRANS && m <= FM45_TRANS)
H2(ElectronConfig, Electron_Config_Kissel, m, m >= K_SHELL && m <= Q3_SHELL)
H2(AugerRate, Auger_Rates, m, m >= K_L1L1_AUGER && m <= M4_M5Q3_AUGER)
H2(AugerYield, Auger_Yields, m, m >= K_SHELL && m <= M5_SHELL)

/* plain (non-group) lines only; group macros are C10's */
#define GROUP_LE(m) ((m) == KA_LINE || (m) == KB_LINE || (m) == LA_LINE || (m) == LB_LINE || (m) == L1N67_LINE || \
  (m) == L1O45_LINE || (m) == L1P23_LINE || (m) == L2P23_LINE || (m) == L3O45_LINE || (m) == L3P23_LINE || \
  (m) == L3P45_LINE || (m) == KO_LINE || (m) == KP_LINE)
#define GROUP_RR(m) ((m) == KA_LINE || (m) == KB_LINE || (m) == LA_LINE || (m) == LB_LINE)

void harness_LineEnergy(void) {
  IN_INT(Z); IN_INT(m); xrl_error *err = NULL; HAVOC(LineEnergy_arr);
  ASSUME(!GROUP_LE(m));
  long slot = -(long)m - 1; int inr = Z >= 1 && Z <= ZMAX && m <= KL1_LINE && m >= -LINENUM; IN_DOUBLE(cell);
  if (inr) { ASSUME(!isnan(cell)); LineEnergy_arr[Z][slot] = cell; }
  double r = LineEnergy(Z, m, &err);
  POST(LineEnergy(Z, m, NULL), r, err, inr && cell > 0.0, cell, "LineEnergy");
}

void harness_RadRate(void) {
  IN_INT(Z); IN_INT(m); xrl_error *err = NULL; HAVOC(RadRate_arr);
  ASSUME(!GROUP_RR(m));
  long slot = -(long)m - 1; int inr = Z >= 1 && Z <= ZMAX && m <= KL1_LINE && m >= -LINENUM; IN_DOUBLE(cell);
  if (inr) { ASSUME(!isnan(cell)); RadRate_arr[Z][slot] = cell; }
  double r = RadRate(Z, m, &err);
  POST(RadRate(Z, m, NULL), r, err, inr && cell > 0.0, cell, "RadRate");
}

/* Biggs occupancy: per-element heap row of NShells[Z] doubles (representation invariant of the generated
 * tables: NShells[Z] is the row length, or negative when the element has no record; cells are >= 0). */
double ElectronConfig_Biggs(int Z, int shell, xrl_error **error);
void harness_ElectronConfig_Biggs(void) {
  IN_INT(Z); IN_INT(m); xrl_error *err = NULL;
  HAVOC(NShells_ComptonProfiles);
  int inz = Z >= 1 && Z <= ZMAX; IN_INT(n); IN_DOUBLE(cell);
  ASSUME(n >= -9999 && n <= SHELLNUM_C);
  double *row = NULL;
  if (inz) {
    NShells_ComptonProfiles[Z] = n;
    if (n > 0) { row = malloc(sizeof(double) * n); ASSUME(row != NULL);
#ifndef VERIF_REPLAY
      __CPROVER_havoc_object(row);
#else
      memset(row, 0, sizeof(double) * n);
#endif
      UOCCUP_ComptonProfiles[Z] = row; }
  }
  int inr = inz && n > 0 && m >= 0 && m < n;
  if (inr) { ASSUME(!isnan(cell) && cell >= 0.0); row[m] = cell; }
  double r = ElectronConfig_Biggs(Z, m, &err);
  POST(ElectronConfig_Biggs(Z, m, NULL), r, err, inr && cell > 0.0, cell, "ElectronConfig_Biggs");
}

#ifdef VERIF_REPLAY
int main(int argc, char **argv) { (void)argc; (void)argv; VH_REPLAY_ENTRY(); return 0; }
#endif
