/* C07 (combining compositions): add_compound_data(A, wA, B, wB) of the real xraylib-parser.c yields the strictly ascending union of
 * the elements with mass fractions wA*fA + wB*fB, for every pair of compositions with NA and NB elements (concrete sizes, symbolic
 * strictly ascending atomic numbers, symbolic fractions and weights), leaves its inputs untouched and leaks nothing.
 * Fractions and weights are drawn from the grid {1/4, 1/2, 3/4, 1}: every product and sum is exact in binary floating point, so the
 * comparison decides the real-valued identity (the fractions of the result are bilinear in these values: an identity that holds for two values per variable holds for all reals). */
#define VH_NO_MEMCPY_MODEL
#include "vh.h"
#include "xraylib-parser.h"
#ifndef NA
#define NA 2
#define NB 2
#endif
/* typed models for the three library calls of add_compound_data (the unit is #included so that they bind): the arrays are int arrays */
#define VH_CAPI (NA + NB + 1)
static void vh_qsort_int(void *base, size_t n, size_t size, int (*cmp)(const void *, const void *)) {
  int *b = (int *)base; __CPROVER_assert(size == sizeof(int), "qsort model: int elements");
  for (size_t i = 1; i < n; i++) { size_t j = i; while (j > 0 && cmp(&b[j - 1], &b[j]) > 0) { int t = b[j - 1]; b[j - 1] = b[j]; b[j] = t; j--; } }
}
static void *vh_memcpy_int(void *d, const void *s, size_t n) { int *dd = d; const int *ss = s; for (size_t i = 0; i < n / sizeof(int); i++) dd[i] = ss[i]; return d; }
#define qsort(b, n, sz, c) vh_qsort_int(b, n, sz, c)
#define memcpy(d, s, n) vh_memcpy_int(d, s, n)
/* realloc: typed block of fixed capacity; a smaller block is moved (new block, copy, free) */
#define realloc(p, n) ({ __typeof__(p) vh_old = (p); size_t vh_n = (n); __typeof__(p) vh_new; \
    __CPROVER_assert(vh_n <= VH_CAPI * sizeof(*vh_old), "realloc model: request within the fixed capacity"); \
    if (vh_old != 0 && __CPROVER_OBJECT_SIZE(vh_old) >= VH_CAPI * sizeof(*vh_old)) vh_new = vh_old; \
    else { vh_new = malloc(VH_CAPI * sizeof(*vh_old)); __CPROVER_assume(vh_new != 0); \
      if (vh_old != 0) { for (size_t vh_i = 0; vh_i < __CPROVER_OBJECT_SIZE(vh_old) / sizeof(*vh_old) && vh_i < VH_CAPI; vh_i++) vh_new[vh_i] = vh_old[vh_i]; free(vh_old); } } \
    vh_new; })
#include "xraylib-parser.c"
#undef qsort
#undef memcpy
#undef realloc
static double grid16(void) { static const double g[4] = {0.25, 0.5, 0.75, 1.0}; return g[nondet_uint() & 3u]; }
static void fill(struct compoundData *c, int n, int *el, double *mf, double *na) {
  for (int i = 0; i < n; i++) { int z = nondet_int(); __CPROVER_assume(z >= 1 && z <= 107 && (i == 0 || z > el[i - 1])); el[i] = z; mf[i] = grid16(); na[i] = 1.0; }
  c->nElements = n; c->Elements = el; c->massFractions = mf; c->nAtoms = na; c->nAtomsAll = (double)n; c->molarMass = 1.0;
}
void harness_add(void) {
  int ea[NA], eb[NB]; double fa[NA], fb[NB], na[NA], nb[NB]; struct compoundData A, B;
  fill(&A, NA, ea, fa, na); fill(&B, NB, eb, fb, nb);
  int ea0[NA], eb0[NB]; double fa0[NA], fb0[NB];
  for (int i = 0; i < NA; i++) { ea0[i] = ea[i]; fa0[i] = fa[i]; }
  for (int i = 0; i < NB; i++) { eb0[i] = eb[i]; fb0[i] = fb[i]; }
  double wa = grid16(), wb = grid16();
  struct compoundData *r = add_compound_data(A, wa, B, wb);
  CHECK(r != NULL, "a composition is returned");
  if (r != NULL) {
    /* size of the union */
    int common = 0; for (int i = 0; i < NA; i++) for (int j = 0; j < NB; j++) if (ea0[i] == eb0[j]) common++;
    CHECK(r->nElements == NA + NB - common, "number of elements = size of the union");
    for (int k = 0; k < NA + NB && k < r->nElements; k++) {
      int z = r->Elements[k]; double want = 0.0; int present = 0;
      if (k > 0) CHECK(z > r->Elements[k - 1], "elements strictly ascending, no duplicates");
      for (int i = 0; i < NA; i++) if (ea0[i] == z) { want += wa * fa0[i]; present = 1; }
      for (int j = 0; j < NB; j++) if (eb0[j] == z) { want += wb * fb0[j]; present = 1; }
      CHECK(present, "every reported element belongs to A or B");
      CHECK(r->massFractions[k] == want, "mass fraction = wA*fA + wB*fB");
    }
    for (int i = 0; i < NA; i++) { int f = 0; for (int k = 0; k < NA + NB && k < r->nElements; k++) if (r->Elements[k] == ea0[i]) f = 1; CHECK(f, "every element of A is reported"); }
    for (int j = 0; j < NB; j++) { int f = 0; for (int k = 0; k < NA + NB && k < r->nElements; k++) if (r->Elements[k] == eb0[j]) f = 1; CHECK(f, "every element of B is reported"); }
    CHECK(r->Elements != ea && r->Elements != eb && r->massFractions != fa && r->massFractions != fb, "the result owns fresh arrays");
    FreeCompoundData(r);
  }
  for (int i = 0; i < NA; i++) CHECK(ea[i] == ea0[i] && fa[i] == fa0[i], "input A is not modified");
  for (int j = 0; j < NB; j++) CHECK(eb[j] == eb0[j] && fb[j] == fb0[j], "input B is not modified");
  VH_END();
}
