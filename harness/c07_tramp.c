/* C07, part B: linked AFTER goto-instrument --replace-calls has redirected the calls inside the unit: this call reaches the real body */
struct compoundAtoms; struct _xrl_error;
int __CPROVER_file_local_xraylib_parser_c_CompoundParserSimple(char *s, struct compoundAtoms *ca, struct _xrl_error **error);
int vh_real_cps(char *s, struct compoundAtoms *ca, struct _xrl_error **error) { return __CPROVER_file_local_xraylib_parser_c_CompoundParserSimple(s, ca, error); }
#ifndef SHAPE_N
#define SHAPE_N 1
#define SHAPE_FROM 0
#define SHAPE_COUNT 9
#endif
const int vh_shape_n = SHAPE_N; const long vh_shape_from = SHAPE_FROM, vh_shape_count = SHAPE_COUNT;
