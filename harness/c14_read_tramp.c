/* per-batch part of the C14 file-reader harness (c14_read.c is compiled once per array shape; this file per batch): one call per
 * file with literal arguments (number of lines, base-10 code of the line kinds, whether the last line ends in a newline) so that
 * symbolic execution sees constants, and the name given to every crystal of the batch's files */
void one_file(int nlines, long id, int last_nl);
#ifndef FILE_CALLS
#define FILE_CALLS one_file(1, 0L, 1);
#define FILE_NAME 'a'
#endif
void vh_run_files(void) { FILE_CALLS }
const char vh_file_name = FILE_NAME;
