/* C03/C04: the error module itself (real xraylib-error.c), all slot states */
#include "vh.h"
void harness_error_api(void) {
  char msg[8]; for (int k = 0; k < 7; k++) msg[k] = nondet_char(); msg[7] = 0; ASSUME(msg[0] != 0);
  IN_INT(code); ASSUME(code >= XRL_ERROR_MEMORY && code <= XRL_ERROR_RUNTIME);
  IN_INT(mode);            /* 0: no slot, 1: empty slot, 2: occupied slot */
  xrl_error *slot = NULL, *old = NULL;
  if (mode == 2) { slot = xrl_error_new_literal(XRL_ERROR_IO, "x"); old = slot; }
  xrl_error **sp = mode == 0 ? NULL : &slot;
  IN_INT(lit);
  if (lit) xrl_set_error_literal(sp, code, msg); else xrl_set_error(sp, code, msg);
  if (mode == 1) { CHECK(slot != NULL && slot->code == code && slot->message != NULL && slot->message[0] != 0, "set on an empty slot stores one error with the given code and a non-empty message");
                   if (lit) CHECK(slot->message[0] == msg[0] && slot->message != msg, "literal message is copied"); CHECK(xrl_error_matches(slot, code) && !xrl_error_matches(NULL, code), "xrl_error_matches"); }
  if (mode == 2) CHECK(slot == old && slot->code == XRL_ERROR_IO, "an occupied slot is never overwritten");
  /* propagate */
  xrl_error *src = xrl_error_new_literal(code, msg);
  xrl_error *dst = NULL; IN_INT(pm);
  if (pm == 0) { xrl_propagate_error(NULL, src); }                                  /* no destination: src is released */
  else if (pm == 1) { xrl_propagate_error(&dst, src); CHECK(dst == src, "propagate into an empty slot moves the error"); }
  else { dst = xrl_error_new_literal(XRL_ERROR_IO, "y"); xrl_error *d0 = dst; xrl_propagate_error(&dst, src); CHECK(dst == d0, "propagate never overwrites"); }
  /* copy is deep */
  if (dst) { xrl_error *c = xrl_error_copy(dst); CHECK(c != NULL && c != dst && c->code == dst->code && c->message != dst->message && c->message[0] == dst->message[0], "xrl_error_copy is a deep copy"); xrl_error_free(c); }
  CHECK(xrl_error_copy(NULL) == NULL, "copy of NULL is NULL");
  xrl_clear_error(&dst); CHECK(dst == NULL, "clear empties the slot"); xrl_clear_error(&dst); xrl_clear_error(NULL);
  xrl_error_free(slot); xrl_error_free(NULL);
  VH_END();
}
