/* C15 / C04 / C03 for the two heap-allocating catalogue units, from an ARBITRARY small catalogue (3 entries, names <= 3 bytes,
 * <= 2 elements / lines): the real functions, symbolic catalogue contents.  Built in a scratch directory that holds a fresh copy
 * of the unit next to the stand-in internal header. */
#define VH_REAL_STRDUP
#define VH_STRMAX 8
#define VH_SEARCH_MODELS
#include "vh.h"
void xrlFree(void *p) { free(p); }   /* defined in xraylib-parser.c, which is not linked here */
#ifdef UNIT_NIST
#include "xraylib-nist-compounds.c"
#define ENTRY struct compoundDataNIST
#define LIST compoundDataNISTList
#define NAMES vh_cat_names
static void setup(void) {
  HAVOC(vh_cat_names); HAVOC(vh_cat_el); HAVOC(vh_cat_mf);
  for (int k = 0; k < NCAT; k++) {
    vh_cat_names[k][NAMEMAX - 1] = 0;
    IN_INT(ne); ASSUME(ne >= 1 && ne <= ELMAX);
    LIST[k].name = vh_cat_names[k]; LIST[k].nElements = ne; LIST[k].Elements = vh_cat_el[k]; LIST[k].massFractions = vh_cat_mf[k];
    LIST[k].density = nondet_double(); ASSUME(!isnan(LIST[k].density));
    for (int j = 0; j < ELMAX; j++) ASSUME(!isnan(vh_cat_mf[k][j]));
  }
}
static int same_entry(const ENTRY *r, const ENTRY *e) {
  if (r->nElements != e->nElements || r->density != e->density) return 0;
  for (int j = 0; j < ELMAX && j < e->nElements; j++) if (r->Elements[j] != e->Elements[j] || r->massFractions[j] != e->massFractions[j]) return 0;
  return 1;
}
static int fresh(const ENTRY *r, const ENTRY *e) { return r->name != e->name && r->Elements != e->Elements && r->massFractions != e->massFractions; }
#define BYINDEX GetCompoundDataNISTByIndex
#define BYNAME GetCompoundDataNISTByName
#define GETLIST GetCompoundDataNISTList
#define FREE FreeCompoundDataNIST
#else
#include "xraylib-radionuclides.c"
#define ENTRY struct radioNuclideData
#define LIST nuclideDataList
#define NAMES vh_rn_names
static void setup(void) {
  HAVOC(vh_rn_names); HAVOC(vh_rn_lines); HAVOC(vh_rn_xi); HAVOC(vh_rn_ge); HAVOC(vh_rn_gi);
  for (int k = 0; k < NCAT; k++) {
    vh_rn_names[k][NAMEMAX - 1] = 0;
    IN_INT(nx); IN_INT(ng); ASSUME(nx >= 0 && nx <= ELMAX && ng >= 0 && ng <= ELMAX);
    LIST[k].name = vh_rn_names[k]; LIST[k].Z = nondet_int(); LIST[k].A = nondet_int(); LIST[k].N = nondet_int(); LIST[k].Z_xray = nondet_int();
    LIST[k].nXrays = nx; LIST[k].XrayLines = vh_rn_lines[k]; LIST[k].XrayIntensities = vh_rn_xi[k];
    LIST[k].nGammas = ng; LIST[k].GammaEnergies = vh_rn_ge[k]; LIST[k].GammaIntensities = vh_rn_gi[k];
    for (int j = 0; j < ELMAX; j++) ASSUME(!isnan(vh_rn_xi[k][j]) && !isnan(vh_rn_ge[k][j]) && !isnan(vh_rn_gi[k][j]));
  }
}
static int same_entry(const ENTRY *r, const ENTRY *e) {
  if (r->Z != e->Z || r->A != e->A || r->N != e->N || r->Z_xray != e->Z_xray || r->nXrays != e->nXrays || r->nGammas != e->nGammas) return 0;
  for (int j = 0; j < ELMAX && j < e->nXrays; j++) if (r->XrayLines[j] != e->XrayLines[j] || r->XrayIntensities[j] != e->XrayIntensities[j]) return 0;
  for (int j = 0; j < ELMAX && j < e->nGammas; j++) if (r->GammaEnergies[j] != e->GammaEnergies[j] || r->GammaIntensities[j] != e->GammaIntensities[j]) return 0;
  return 1;
}
static int fresh(const ENTRY *r, const ENTRY *e) {
  return r->name != e->name && r->XrayLines != e->XrayLines && r->XrayIntensities != e->XrayIntensities && r->GammaEnergies != e->GammaEnergies && r->GammaIntensities != e->GammaIntensities;
}
#define BYINDEX GetRadioNuclideDataByIndex
#define BYNAME GetRadioNuclideDataByName
#define GETLIST GetRadioNuclideDataList
#define FREE FreeRadioNuclideData
#endif

static int same_str(const char *a, const char *b) {
  for (int k = 0; k < NAMEMAX; k++) { if (a[k] != b[k]) return 0; if (a[k] == 0) return 1; }
  return 0;
}

void harness_byindex(void) {
  setup();
  IN_INT(i); xrl_error *err = NULL;
  ENTRY *r = BYINDEX(i, &err);
  if (i >= 0 && i < NCAT) {
    const ENTRY *e = &LIST[i];
    CHECK(r != NULL && err == NULL, "ByIndex: valid index succeeds with an empty error slot");
    if (r != NULL) {
      CHECK(same_str(r->name, e->name) && same_entry(r, e), "ByIndex: every field of entry i");
      CHECK(fresh(r, e), "ByIndex: deep copy (fresh storage for every pointer member)");
      FREE(r);
    }
  } else {
    CHECK(r == NULL, "ByIndex: out-of-range index returns NULL");
    CHECK_ERR_INVALID_ARG(err, "ByIndex out of range");
  }
  ENTRY *r0 = BYINDEX(i, NULL);
  CHECK((r0 == NULL) == (i < 0 || i >= NCAT), "ByIndex: error==NULL changes nothing but the reporting");
  if (r0) FREE(r0);
  xrl_error_free(err);
  VH_END();
}

void harness_byname(void) {
  setup();
  char key[NAMEMAX]; for (int k = 0; k < NAMEMAX - 1; k++) key[k] = nondet_char(); key[NAMEMAX - 1] = 0;
  IN_INT(usenull);
  xrl_error *err = NULL;
  ENTRY *r = BYNAME(usenull ? NULL : key, &err);
  /* expected: the FIRST entry whose name equals the key */
  int exp = -1;
  if (!usenull) for (int k = NCAT - 1; k >= 0; k--) if (same_str(key, LIST[k].name)) exp = k;
  if (exp >= 0) {
    CHECK(r != NULL && err == NULL, "ByName: a catalogued name succeeds");
    if (r != NULL) {
      CHECK(same_str(r->name, LIST[exp].name) && same_entry(r, &LIST[exp]), "ByName: returns the entry carrying that name");
      CHECK(fresh(r, &LIST[exp]), "ByName: deep copy");
      FREE(r);
    }
  } else {
    CHECK(r == NULL, "ByName: NULL or unknown name returns NULL");
    CHECK_ERR_INVALID_ARG(err, "ByName unknown");
  }
  xrl_error_free(err);
  VH_END();
}

void harness_list(void) {
  setup();
  xrl_error *err = NULL; int n = -1;
  char **l = GETLIST(&n, &err);
  CHECK(l != NULL && err == NULL && n == NCAT, "list: reports the catalogue size");
  if (l != NULL) {
    for (int k = 0; k < NCAT; k++) { CHECK(same_str(l[k], LIST[k].name) && l[k] != LIST[k].name, "list[k] is a copy of the name of entry k (same order as ByIndex)"); }
    CHECK(l[NCAT] == NULL, "list is NULL terminated");
    for (int k = 0; k < NCAT; k++) xrlFree(l[k]);
    xrlFree(l);
  }
  char **l2 = GETLIST(NULL, NULL);
  if (l2 != NULL) { for (int k = 0; k < NCAT; k++) xrlFree(l2[k]); xrlFree(l2); }
  VH_END();
}
