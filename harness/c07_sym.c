/* C07 / C15: element symbol <-> atomic number over the REAL Mendel table (xrayglob.c) */
#define VH_REAL_STRDUP
#define VH_STRMAX 4
#include "vh.h"
#include "xrayglob.h"

void harness_z2sym(void) {
  IN_INT(Z); xrl_error *err = NULL;
  char *s = AtomicNumberToSymbol(Z, &err);
  if (Z >= 1 && Z <= MENDEL_MAX) {
    CHECK(s != NULL && err == NULL, "AtomicNumberToSymbol: 1..107 succeeds");
    if (s) { CHECK(s[0] == MendelArray[Z - 1].name[0] && s != MendelArray[Z - 1].name && MendelArray[Z - 1].Zatom == Z, "AtomicNumberToSymbol: a fresh copy of the symbol of element Z"); xrlFree(s); }
  } else { CHECK(s == NULL, "AtomicNumberToSymbol: outside 1..107 returns NULL"); CHECK_ERR_INVALID_ARG(err, "AtomicNumberToSymbol range"); }
  xrl_error_free(err);
  VH_END();
}

void harness_sym2z(void) {
  /* every catalogued symbol maps back to its Z (the table is a finite constant: enumerated), symbols are pairwise distinct */
  for (int i = 0; i < MENDEL_MAX; i++) {
    xrl_error *err = NULL;
    int z = SymbolToAtomicNumber(MendelArray[i].name, &err);
    CHECK(z == i + 1 && MendelArray[i].Zatom == i + 1 && err == NULL, "SymbolToAtomicNumber(symbol of Z) == Z for every element (bijection on 1..107)");
  }
  xrl_error *err = NULL;
  CHECK(SymbolToAtomicNumber(NULL, &err) == 0, "SymbolToAtomicNumber(NULL) fails"); CHECK_ERR_INVALID_ARG(err, "SymbolToAtomicNumber(NULL)");
  xrl_error_free(err); err = NULL;
  char key[3]; key[0] = nondet_char(); key[1] = nondet_char(); key[2] = 0;
  ASSUME(!(key[0] >= 'A' && key[0] <= 'Z'));        /* no symbol starts with anything but an upper-case letter */
  CHECK(SymbolToAtomicNumber(key, &err) == 0, "a string that does not start with an upper-case letter is no symbol"); CHECK_ERR_INVALID_ARG(err, "SymbolToAtomicNumber(unknown)");
  xrl_error_free(err);
  VH_END();
}

/* the comparators behind the parser's symbol lookup (bsearch over the strcmp-sorted table): both realise strcmp on the full symbol,
 * so a key finds exactly the entry of that name (and "Ca" does not match the entry "C") */
static int sgn(int x) { return x < 0 ? -1 : x > 0 ? 1 : 0; }
void harness_mendel_cmp(void) {
  char a[4], b[4];
  for (int k = 0; k < 3; k++) { a[k] = nondet_char(); b[k] = nondet_char(); }
  a[3] = 0; b[3] = 0;
  int ref = 0;
  for (int k = 0; k <= 3; k++) { int x = a[k] & 0xFF, y = b[k] & 0xFF; if (x != y) { ref = x < y ? -1 : 1; break; } if (x == 0) break; }
  struct MendelElement ea, eb; ea.name = a; ea.Zatom = 1; eb.name = b; eb.Zatom = 2;
  CHECK(sgn(matchMendelElement(a, &eb)) == ref, "symbol lookup comparator orders by the full symbol (strcmp semantics)");
  CHECK(sgn(compareMendelElements(&ea, &eb)) == ref, "symbol sort comparator orders by the full symbol (strcmp semantics)");
  VH_END();
}
