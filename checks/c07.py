# C07 — the formula parser computes the true composition of every well-formed formula (DESIGN.md §C07) — PARTIAL, see DESIGN.md
def symbols(run, prefix='C07'):
    srcs = [run.harness('c07_sym.c'), run.src('xraylib-parser.c'), run.src('xrayglob.c'), run.src('xrayvars.c'), run.src('atomicweight.c'), run.src('xraylib-error.c'), run.src('xraylib-aux.c')]
    fns = ['AtomicNumberToSymbol', 'SymbolToAtomicNumber', 'xrayglob.c:MendelArray']
    return [lambda: run.cbmc(prefix + '/symbols/z2sym', srcs, 'harness_z2sym', unwind=5, backends=('cadical', 'kissat'), functions=fns, leak=True,
                             bounds='every 32-bit Z; real element table', what='AtomicNumberToSymbol: fresh copy of the symbol for 1..107, NULL + INVALID_ARGUMENT otherwise', object_bits=10),
            lambda: run.cbmc(prefix + '/symbols/sym2z', srcs, 'harness_sym2z', unwind=110, backends=('cadical', 'kissat'), functions=fns, leak=True,
                             bounds='all 107 table entries (enumerated inside the harness) + NULL + every 2-byte string not starting with an upper-case letter',
                             what='SymbolToAtomicNumber inverts AtomicNumberToSymbol on 1..107 (bijection); NULL / non-symbols rejected with one error', object_bits=10, timeout=400)]


def check(run):
    run.assumptions += ['allocation never fails', 'strdup bounded copy, formatting stubbed',
                        'NOT covered by a solver verdict in this round: CompoundParserSimple (string -> element list); see DESIGN.md C07 for what was tried']
    run.parallel(symbols(run))
