import re
# C07 — the formula parser computes the true composition of every well-formed formula (DESIGN.md §C07) — PARTIAL, see DESIGN.md
def symbols(run, prefix='C07'):
    srcs = [run.harness('c07_sym.c'), run.src('xraylib-parser.c'), run.src('xrayglob.c'), run.src('xrayvars.c'), run.src('atomicweight.c'), run.src('xraylib-error.c'), run.src('xraylib-aux.c')]
    fns = ['AtomicNumberToSymbol', 'SymbolToAtomicNumber', 'xrayglob.c:MendelArray']
    return [lambda: run.cbmc(prefix + '/symbols/z2sym', srcs, 'harness_z2sym', unwind=5, backends=('cadical', 'kissat'), functions=fns, leak=True,
                             bounds='every 32-bit Z; real element table', what='AtomicNumberToSymbol: fresh copy of the symbol for 1..107, NULL + INVALID_ARGUMENT otherwise', object_bits=10),
            lambda: run.cbmc(prefix + '/symbols/sym2z', srcs, 'harness_sym2z', unwind=110, backends=('cadical', 'kissat'), functions=fns, leak=True,
                             bounds='all 107 table entries (enumerated inside the harness) + NULL + every 2-byte string not starting with an upper-case letter',
                             what='SymbolToAtomicNumber inverts AtomicNumberToSymbol on 1..107 (bijection); NULL / non-symbols rejected with one error', object_bits=10, timeout=400),
            lambda: run.cbmc(prefix + '/symbols/comparators', srcs, 'harness_mendel_cmp', unwind=6, backends=('cadical', 'kissat'), functions=['xrayvars.c:matchMendelElement', 'xrayvars.c:compareMendelElements'], object_bits=10,
                             bounds='every pair of strings of up to 3 bytes (all byte values); symbols have at most 2',
                             what='the comparators of the parser\'s symbol lookup (bsearch over the sorted table) realise strcmp on the full symbol: a key matches exactly the entry of that name')]


def check(run):
    run.assumptions += ['allocation never fails', 'strdup bounded copy, formatting stubbed',
                        'see DESIGN.md C07 for the earlier monolithic attempts (no verdict) that the shape split replaced']
    run.parallel(symbols(run))


# ---- Engine B: the assembly half of CompoundParser (element list -> composition), locale handling, ownership
def b_assemble(cl, mod, H):
    import z3
    from z3 import BitVec, BitVecVal, And, Or, Not, Implies, If, RealVal, BoolVal, Real, Bool, IntVal
    from vlib.irsym import Eval, Prim, P, heap_prims
    S32 = z3.BitVecSort(32); S64 = z3.BitVecSort(64); R = z3.RealSort()
    NMAX = 3
    ev = Eval(mod, unroll=NMAX + 1)
    ev.prims = heap_prims()
    ok = Bool('formula_parses'); partial = Bool('list_partially_built')
    n = BitVec('nElements', 32)
    B = lambda v: BitVecVal(v, 64)
    Zi = lambda i: ev.uf('elems|2', [S64, S64], S32)(B(i), B(0)); Ni = lambda i: ev.uf('elems|2', [S64, S64], R)(B(i), B(1))
    ev.axioms.append(And(n >= 1, n <= NMAX))
    for i in range(NMAX): ev.axioms.append(Ni(i) > 0)        # contract of the scanner: atom counts are positive (zero subscripts are rejected)
    LOCALE_USER, LOCALE_C = 0, 1
    dups = {}
    def setlocale(ev_, st, args, ins):
        cur = st.mem.get(('locale', ('cur',)), BitVecVal(LOCALE_USER, 8))
        name = args[1]
        new = cur
        for g, t in name.alts:
            if t is None: continue                      # query
            obj = t[0]
            if obj.startswith('g:'):                    # string literal: must be "C"
                gl = ev_.mod.globals.get(obj[2:]); lit = ''.join(chr(e.v) for e in gl['init'].elems[:-1]) if gl and gl['init'] is not None else '?'
                ev_.oblig.append((st.pc, BoolVal(lit == 'C'), 'setlocale is only called with "C" or a saved locale name'))
                new = If(g, BitVecVal(LOCALE_C, 8), new)
            elif obj in dups: new = If(g, dups[obj], new)   # a saved name: the locale that was in force when it was saved
            else: ev_.oblig.append((st.pc, BoolVal(False), 'setlocale called with an unknown string'))
        st.mem[('locale', ('cur',))] = new
        st.cnt[('setlocale',)] = st.cnt.get(('setlocale',), IntVal(0)) + 1
        return P.to('str:locale_now#%d' % next(ev_.fresh), (0,))   # the name of the locale now in force (library-owned storage)
    def xrl_strdup(ev_, st, args, ins):
        obj = 'm:%d' % next(ev_.fresh); ev_.heap_objs.append(obj); st.cnt[('alloc', obj)] = IntVal(1)
        src = args[0].single()
        if src is not Ellipsis and src is not None and src[0].startswith('str:locale_now'):
            dups[obj] = st.mem.get(('locale', ('cur',)), BitVecVal(LOCALE_USER, 8))      # copy of the current locale's name
        return P.to(obj, (0,))
    def cps(ev_, st, args, ins):
        ca = args[1]
        ev_.store(st, ev_.gep(ca, [BitVecVal(0, 64), BitVecVal(0, 32)]), If(ok, n, If(partial, n, BitVecVal(0, 32))), None)
        elems = P([(Or(ok, partial), ('h:elems', (0,))), (Not(Or(ok, partial)), None)])
        ev_.heap_objs.append('h:elems'); st.cnt[('alloc', 'h:elems')] = If(Or(ok, partial), IntVal(1), IntVal(0))
        ev_.store(st, ev_.gep(ca, [BitVecVal(0, 64), BitVecVal(1, 32)]), elems, None)
        ev_.set_error(st, args[2], code=1, msg=None, how='CompoundParserSimple', when=Not(ok))
        # strtod runs in here: the locale must be "C" at this point
        ev_.oblig.append((st.pc, st.mem.get(('locale', ('cur',)), BitVecVal(LOCALE_USER, 8)) == LOCALE_C, 'the formula is scanned under the "C" numeric locale'))
        return If(ok, BitVecVal(1, 32), BitVecVal(0, 32))
    AW = ev.uf('AtomicWeight', [S32], R)
    ev.prims.update({'setlocale': Prim(kind='custom', post=setlocale), 'xrl_strdup': Prim(kind='custom', post=xrl_strdup),
                     'CompoundParserSimple': Prim(kind='custom', post=cps), 'AtomicWeight': Prim()})
    ev.nonnull_roots = ('h:elems',)
    r = ev.call('CompoundParser', [P.to('h:formula', (0,))])
    rn = ev.call('CompoundParser', [P.null()])
    fns = ['CompoundParser', 'FreeCompoundData']
    st = r.st
    cur = st.mem.get(('locale', ('cur',)), BitVecVal(LOCALE_USER, 8))
    cl.add('C07/assemble/locale', ev, BoolVal(True), cur == LOCALE_USER, 'after the call the numeric locale is the one the caller had (success and failure alike)', functions=fns)
    cl.add('C07/assemble/null', ev, BoolVal(True), And(rn.rv.is_null(), rn.errset, rn.sets_on_slot == 1), 'NULL formula: NULL + one error, the locale is not touched', functions=fns)
    # ownership: every block allocated during the call is freed exactly once, except the returned composition (4 blocks) on success
    weigh = lambda k: And(*[AW(Zi(i)) > 0 for i in range(k)])
    for k in range(1, NMAX + 1):
        pre = And(ok, n == k)
        good = And(pre, weigh(k))
        cdp = r.rv
        tgt = [t for g, t in cdp.alts if t is not None]
        summ = sum([AW(Zi(i)) * Ni(i) for i in range(k)], RealVal(0)); alln = sum([Ni(i) for i in range(k)], RealVal(0))
        def fld(obj, path, ty=None):
            return st.mem.get((obj, path))
        concl = [Not(cdp.is_null()), Not(r.errset), r.overwrites == 0]
        if len(tgt) == 1:
            cd = tgt[0][0]
            el = fld(cd, (0, 2)); mf = fld(cd, (0, 3)); na = fld(cd, (0, 4))
            concl += [fld(cd, (0, 0)) == k, fld(cd, (0, 5)) == summ, fld(cd, (0, 1)) == alln]
            for i in range(k):
                eo = [t for g, t in el.alts if t is not None][0][0]; mo = [t for g, t in mf.alts if t is not None][0][0]; no = [t for g, t in na.alts if t is not None][0][0]
                concl += [st.mem.get((eo, (i,))) == Zi(i), st.mem.get((mo, (i,))) == AW(Zi(i)) * Ni(i) / summ, st.mem.get((no, (i,))) == Ni(i)]
        cl.add('C07/assemble/n%d/value' % k, ev, And(good, summ != 0), And(*[c for c in concl if c is not None]),
               'composition of %d elements: Elements and atom counts copied in order, nAtomsAll = sum n_i, molarMass = sum n_i A_i, massFraction_i = n_i A_i / molarMass' % k, functions=fns)
        cl.add('C07/assemble/n%d/unweighable' % k, ev, And(pre, Not(weigh(k))), And(cdp.is_null(), r.errset, r.sets_on_slot == 1, r.overwrites == 0),
               'an element without atomic weight: NULL + one error', functions=fns)
    cl.add('C07/assemble/reject', ev, Not(ok), And(r.rv.is_null(), r.errset, r.sets_on_slot == 1, r.overwrites == 0), 'a rejected formula: NULL + the scanner\'s single error', functions=fns)
    # leak freedom on every path
    leak = []
    returned = set()
    for g, t in r.rv.alts:
        if t is not None: returned.add(t[0])
    for obj in ev.heap_objs:
        al = st.cnt.get(('alloc', obj), IntVal(0)); fr = st.cnt.get(('free', obj), IntVal(0))
        leak.append((obj, al, fr))
    # blocks reachable from the returned composition survive on success; everything else is freed exactly as often as allocated
    cd_objs = set(returned)
    for o in list(returned):
        for fpath in ((0, 2), (0, 3), (0, 4)):
            v = st.mem.get((o, fpath))
            if v is not None:
                for g, t in v.alts:
                    if t is not None: cd_objs.add(t[0])
    succ = Not(r.rv.is_null())
    conj = []
    for obj, al, fr in leak:
        if obj in cd_objs: conj.append(If(succ, fr == 0, fr == al))
        else: conj.append(fr == al)
    cl.add('C07/assemble/ownership', ev, BoolVal(True), And(*conj),
           'every block allocated during the call (formula copy, saved locale name, scanner element list, partially built composition) is freed exactly once on every path; only the returned composition survives', functions=fns)
    cl.side_obligations('C07/assemble/side', ev, functions=fns, allow_static=())


def check_b(run):
    from vlib import bcheck
    from vlib.headers import macros
    H = macros(run)
    mod = bcheck.load_units(run, ['xraylib-parser.c'])
    bcheck.run_groups(run, [('C07/assemble', lambda cl: b_assemble(cl, mod, H), ())])

# ---- Engine A: ONE nesting level of the real scanner, case split by shape (harness/c07_unit.c, c07_tramp.c)
import os, subprocess
from vlib import core
PARSER_FN = '__CPROVER_file_local_xraylib_parser_c_CompoundParserSimple'
NCLASS = 9
SCANNER_FNS = ['xraylib-parser.c:CompoundParserSimple']


def build_unit(run, L, extra=()):
    """compile the unit (real parser #included) once, redirect every call to CompoundParserSimple INSIDE it to cps_stub; returns (gb, witness gb)"""
    out = []
    for wit in (False, True):
        a = os.path.join(run.tmp, 'c07unit_L%d_%s%s.gb' % (L, '_'.join(extra), '_w' if wit else ''))
        cmd = ['goto-cc', '--export-file-local-symbols'] + run.inc + ['-DLMAX=%d' % L] + ['-D' + d for d in extra] + (['-DWITNESS'] if wit else []) + ['-c', run.harness('c07_unit.c'), '-o', a]
        r = subprocess.run(cmd, capture_output=True, text=True)
        if r.returncode != 0: raise core.BuildError('goto-cc c07_unit.c: ' + (r.stderr or r.stdout)[-2000:])
        a2 = a[:-3] + '_i.gb'
        r = subprocess.run(['goto-instrument', '--replace-calls', PARSER_FN + ':cps_stub', a, a2], capture_output=True, text=True)
        if r.returncode != 0: raise core.BuildError('goto-instrument --replace-calls: ' + (r.stderr or r.stdout)[-2000:])
        sh = subprocess.run(['goto-instrument', '--show-goto-functions', a2], capture_output=True, text=True).stdout
        ncalls_stub = len(re.findall(r'CALL[^\n]*\bcps_stub\(', sh)); ncalls_real = len(re.findall(r'CALL[^\n]*%s\(' % PARSER_FN, sh))
        if ncalls_stub < 1 or ncalls_real != 0:
            raise core.BuildError('call redirection failed: %d calls of cps_stub, %d remaining direct calls of the scanner (did the function get renamed?)' % (ncalls_stub, ncalls_real))
        out.append(a2)
    return tuple(out)


def scanner_batches(run, prefix, L, lengths, per_batch, extra=(), timeout=None, tag=''):
    thunks = []
    try:
        unit = build_unit(run, L, extra)
    except core.BuildError as e:
        ob = core.Ob(prefix + '/scanner/build', 'A:cbmc', SCANNER_FNS, '', 'build of the scanner unit'); ob.reason = 'BUILD: ' + str(e); run.add_ob(ob); return []
    def batch(n, frm, cnt, wit):
        oid = '%s/scanner%s/n%d/%d-%d' % (prefix, tag, n, frm, frm + cnt - 1)
        try:
            gbs = []
            for w in ((False, True) if wit else (False,)):
                tr = os.path.join(run.tmp, 'c07tr_%s_%d_%d%s.gb' % (tag, n, frm, '_w' if w else ''))
                r = subprocess.run(['goto-cc'] + run.inc + ['-DSHAPE_N=%d' % n, '-DSHAPE_FROM=%d' % frm, '-DSHAPE_COUNT=%d' % cnt, '-c', run.harness('c07_tramp.c'), '-o', tr], capture_output=True, text=True)
                if r.returncode != 0: raise core.BuildError('goto-cc c07_tramp.c: ' + (r.stderr or r.stdout)[-1500:])
                ab = tr[:-3] + '_l.gb'
                r = subprocess.run(['goto-cc', unit[1 if w else 0], tr, '-o', ab], capture_output=True, text=True)
                if r.returncode != 0: raise core.BuildError('link: ' + (r.stderr or r.stdout)[-1500:])
                gbs.append(ab)
            if len(gbs) == 1: gbs.append(None)
        except core.BuildError as e:
            ob = core.Ob(oid, 'A:cbmc', SCANNER_FNS, '', 'scanner batch'); ob.reason = 'BUILD: ' + str(e); run.add_ob(ob); return ob
        ob = run.cbmc(oid, [], 'harness_shapes', unwind=20, unwindset=['harness_shapes.%d:%d' % (k, max(cnt + 1, 20)) for k in range(4)], backends=('cadical', 'kissat'), prebuilt=tuple(gbs), witness=wit, leak=True, object_bits=12,
                      functions=SCANNER_FNS, timeout=timeout,
                      bounds='strings of exactly %d characters, shapes %d..%d of %d (class of every character fixed: upper, lower, digit 1-9, 0, . ( ) space, other); <= 2 groups per level, nested results of <= 2 elements; counts/subscript values on the grid 0.5..8 (%s)'
                             % (n, frm, frm + cnt - 1, NCLASS ** n, 'full doubles' if 'VH_FULL_DOUBLES' in extra else 'exact arithmetic'),
                      what='one nesting level of the real scanner == reference grammar: accepts exactly the well-formed strings, element list strictly ascending, counts = algebraic expansion with nested results scaled by their multiplier, text unmodified, one error on rejection, everything but the result released (memory-leak check, double free, bounds)')
        for f in (gbs + [t[:-5] + '.gb' for t in gbs if t]):
            try:
                if f: os.unlink(f)
            except OSError: pass
        return ob
    first = True
    for n in lengths:
        total = NCLASS ** n
        for frm in range(0, total, per_batch(n)):
            cnt = min(per_batch(n), total - frm)
            thunks.append(lambda n=n, frm=frm, cnt=cnt, wit=(frm == 0): batch(n, frm, cnt, wit))
    return thunks


def combine(run, prefix='C07'):
    srcs = [run.harness('c07_add.c'), run.src('xraylib-error.c'), run.src('xraylib-aux.c'), run.src('xrayglob.c'), run.src('xrayvars.c'), run.src('atomicweight.c')]
    shapes = [(1, 1), (1, 2), (2, 1), (2, 2), (1, 3), (3, 1)] + ([(2, 3), (3, 2), (3, 3)] if run.tier == 'thorough' else [])
    return [lambda a=a, b=b: run.cbmc('%s/combine/%dx%d' % (prefix, a, b), srcs, 'harness_add', unwind=a + b + 2, backends=('cadical', 'kissat'), functions=['add_compound_data', 'xraylib-parser.c:compareInt', 'FreeCompoundData'],
                                      leak=True, defines=('NA=%d' % a, 'NB=%d' % b), object_bits=10, 
                                      bounds='A with %d and B with %d elements (symbolic ascending atomic numbers), fractions and weights on the grid k/4 (exact arithmetic)' % (a, b),
                                      what='add_compound_data: strictly ascending union of the elements, mass fractions wA*fA + wB*fB, inputs untouched, fresh arrays, no leak')
            for a, b in shapes]


def scanner(run, prefix='C07'):
    run.assumptions += ['scanner: modular in the nesting depth - calls of CompoundParserSimple inside the unit are replaced (goto-instrument --replace-calls) by a stub that returns ANY result allowed by the function\'s own contract; '
                        'the one-level verdict extends to every depth by induction (base: strings without groups are among the shapes)',
                        'scanner: ctype = C/POSIX ASCII classes; characters are class representatives (the scanner only tests classes and punctuation); what a symbol / a subscript denotes is symbolic per position (abstract element table, abstract strtod value, exact strtod read length)',
                        'scanner: realloc = typed fixed-capacity blocks (in place, or move+copy+free when the block is smaller), strndup = 8-byte blocks, O(1) error objects, typed bsearch / single-insertion qsort (precondition checked) with the REAL comparators']
    if run.tier == 'thorough':
        return scanner_batches(run, prefix, 4, [0, 1, 2, 3, 4], lambda n: 9 if n < 3 else 27, timeout=1800)
    return scanner_batches(run, prefix, 3, [0, 1, 2, 3], lambda n: 9 if n < 3 else 27)


_check_a = check
def sorted_table(run):
    """closed fact (direct): the generated MendelArraySorted is MendelArray sorted strictly ascending by symbol"""
    import ctypes
    from vlib import datalemma
    from vlib.headers import macros
    H = macros(run); T = datalemma.Tables(run)
    class ME(ctypes.Structure): _fields_ = [('Zatom', ctypes.c_int), ('name', ctypes.c_char_p)]
    n = H['MENDEL_MAX']
    arr = (ME * n).in_dll(T.lib, 'MendelArraySorted')
    from checks import c15
    base = c15.mendel_symbols(run)          # Z -> symbol, parsed from xrayglob.c
    names = [arr[i].name for i in range(n)]
    bad = []
    if any(names[i] >= names[i + 1] for i in range(n - 1)): bad.append('not strictly ascending under strcmp')
    if sorted((sym.encode(), z) for z, sym in base.items()) != [(arr[i].name, arr[i].Zatom) for i in range(n)]: bad.append('not a permutation of MendelArray (symbol, Z)')
    datalemma.report(run, 'C07/data/sorted-symbols', [('MendelArraySorted (generated from the current sources) is MendelArray strictly ascending by symbol: with strcmp comparators, bsearch finds exactly the entry of the key', not bad, '; '.join(bad), n)],
                     ['xrayglob.c:MendelArray', 'xrayfiles.c'], 'the table the symbol lookup searches is sorted by the order its comparator implements')


def check(run):
    _check_a(run)
    run.parallel(scanner(run) + combine(run))
    check_b(run)
    sorted_table(run)
    # "elements without an atomic weight are rejected" rests on AtomicWeight's own contract (value iff the cell is positive): the C01 accessor obligation, under C07
    from checks import frame
    frame.sweep(run, 'C07', keep=lambda oid: 'AtomicWeight' in oid, modules=['c01'])
