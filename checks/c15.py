# C15 — built-in databases are self-consistent and addressable in every documented way (DESIGN.md §C15)
import os, re, shutil
from vlib import core
from vlib.headers import macros


def small_catalogue(run, prefix='C15', units=('NIST', 'RN')):
    """the real NIST / radionuclide units over an arbitrary 3-entry catalogue (symbolic contents): by index, by name, name list,
    deep copies, error protocol, no leak"""
    d = os.path.join(run.tmp, 'c15'); os.makedirs(d, exist_ok=True)
    for f in ('xraylib-nist-compounds.c', 'xraylib-radionuclides.c'): shutil.copy(run.src(f), d)        # fresh copy of the units
    for f in os.listdir(run.harness('c15stub')): shutil.copy(os.path.join(run.harness('c15stub'), f), d)  # stand-in catalogue headers
    shutil.copy(run.harness('c15_small.c'), d); shutil.copy(run.harness('vh.h'), d)
    src = os.path.join(d, 'c15_small.c')
    T = []
    for unit, fns in (('NIST', ['GetCompoundDataNISTByIndex', 'GetCompoundDataNISTByName', 'GetCompoundDataNISTList', 'FreeCompoundDataNIST']),
                      ('RN', ['GetRadioNuclideDataByIndex', 'GetRadioNuclideDataByName', 'GetRadioNuclideDataList', 'FreeRadioNuclideData'])):
        if unit not in units: continue
        defs = ('UNIT_' + unit,)
        srcs = [src, run.src('xraylib-error.c'), run.src('xraylib-aux.c')]
        for h, what in (('byindex', 'ByIndex(i) != NULL iff 0 <= i < n; every field equals entry i; fresh storage for every pointer member; error protocol; no leak'),
                        ('byname', 'ByName(key): the first entry with that name, as a deep copy; NULL/unknown key: NULL + one INVALID_ARGUMENT error; no leak'),
                        ('list', 'name list: catalogue size, same order, copies, NULL terminated; no leak')):
            T.append(lambda unit=unit, h=h, what=what, defs=defs, srcs=srcs, fns=fns: run.cbmc(
                '%s/%s/%s' % (prefix, unit.lower(), h), srcs, 'harness_' + h, unwind=17, backends=('cadical', 'kissat'), defines=defs, functions=fns, leak=True,
                bounds='catalogue of 3 entries with arbitrary contents: names <= 3 bytes (all byte values), <= 2 elements/lines/gammas; every int index / every 3-byte key / NULL',
                what=what, stubs=['strdup (bounded copy loop)', 'lfind (linear scan with the real comparator)', 'vasprintf/fprintf O(1)']))
    return T


def catalogue_data(run, H):
    """closed facts about the SHIPPED catalogues (constants, evaluated directly): well-formed entries, unique names, published index macros"""
    res = []
    txt = open(run.src('xraylib-nist-compounds-internal.h')).read()
    arrs = {m.group(1): [float(x) for x in m.group(2).split(',')] for m in re.finditer(r'static (?:int|double) (\w+)\[\] = \{([^}]*)\};', txt)}
    ents = re.findall(r'\{"([^"]*)"\s*,\s*(\d+),\s*(\w+),\s*(\w+),\s*([-0-9.eE+]+)\}', txt)
    n = int(re.search(r'nCompoundDataNISTList = (\d+)', txt).group(1))
    bad = []
    if len(ents) != n: bad.append('catalogue declares %d entries, %d found' % (n, len(ents)))
    names = [e[0] for e in ents]
    if len(set(names)) != len(names): bad.append('duplicate names: %s' % [x for x in names if names.count(x) > 1][:3])
    for k, (nm, ne, el, mf, rho) in enumerate(ents):
        E = arrs.get(el, []); M = arrs.get(mf, []); ne = int(ne)
        if not (ne >= 1 and len(E) == ne and len(M) == ne): bad.append('%s: element count %d vs arrays %d/%d' % (nm, ne, len(E), len(M))); continue
        if any(not (1 <= z <= H['MENDEL_MAX']) for z in E) or any(E[j] <= E[j - 1] for j in range(1, ne)): bad.append('%s: elements not ascending in 1..107' % nm)
        if any(not m > 0 for m in M) or abs(sum(M) - 1) > 1e-4: bad.append('%s: mass fractions not positive / sum %r' % (nm, sum(M)))
        if not float(rho) > 0: bad.append('%s: density' % nm)
    res.append(('NIST catalogue: %d entries, unique names, ascending elements, positive fractions summing to 1 +- 1e-4, positive density' % n, not bad, '; '.join(bad[:4]), len(ents)))
    # published index macros: NIST_COMPOUND_<NAME> indexes the entry whose name, with ',' and '/' deleted, other non-alphanumerics -> '_', upper-cased, is the macro
    bad = []; nm_ = 0
    for k, v in H.items():
        if k.startswith('NIST_COMPOUND_') and isinstance(v, int):
            nm_ += 1
            if not (0 <= v < len(names)): bad.append('%s = %d out of range' % (k, v)); continue
            norm = re.sub(r'[^A-Za-z0-9]+', '_', names[v].replace(',', '').replace('/', '')).strip('_').upper()
            if 'NIST_COMPOUND_' + norm != k: bad.append('%s = %d but entry %d is "%s"' % (k, v, v, names[v]))
    if nm_ != len(names): bad.append('%d index macros for %d entries' % (nm_, len(names)))
    res.append(('every NIST_COMPOUND_* macro indexes the entry of that name; one macro per entry', not bad, '; '.join(bad[:4]), nm_))
    # radionuclides
    txt = open(run.src('xraylib-radionuclides-internal.h')).read()
    ents = re.findall(r'\{"([^"]*)"\s*,\s*(\d+),\s*(\d+),\s*(\d+),\s*(\d+),\s*(\d+),\s*(\w+),\s*(\w+),\s*(\d+),\s*(\w+),\s*(\w+)\}', txt)
    lines = {m.group(1): [x.strip() for x in m.group(2).split(',')] for m in re.finditer(r'static int (\w+)\[\] = \{([^}]*)\};', txt)}
    sym = mendel_symbols(run)
    bad = []; rn_names = [e[0] for e in ents]
    nrn = int(re.search(r'nNuclideDataList = (\d+)', txt).group(1))
    if len(ents) != nrn or len(set(rn_names)) != len(rn_names): bad.append('count/uniqueness: %d declared, %d found' % (nrn, len(ents)))
    for nm, Z, A, N, Zx, nx, xl, xi, ng, ge, gi in ents:
        Z, A, N, Zx, nx = int(Z), int(A), int(N), int(Zx), int(nx)
        if A != Z + N: bad.append('%s: A != Z + N' % nm)
        if nm != '%d%s' % (A, sym.get(Z, '?')): bad.append('%s: name is not A followed by the symbol of Z=%d' % (nm, Z))
        L = lines.get(xl, [])
        if len(L) != nx: bad.append('%s: nXrays %d vs %d lines' % (nm, nx, len(L)))
        for l in L:
            if l not in H: bad.append('%s: unknown line macro %s' % (nm, l))
    res.append(('radionuclide catalogue: %d entries, unique names, A = Z + N, name = A + symbol(Z), X-ray lines are known macros' % nrn, not bad, '; '.join(bad[:4]), len(ents)))
    bad = []
    for k, v in H.items():
        if k.startswith('RADIO_NUCLIDE_') and isinstance(v, int):
            if not (0 <= v < len(rn_names)) or 'RADIO_NUCLIDE_' + rn_names[v].upper() != k: bad.append('%s = %d' % (k, v))
    res.append(('every RADIO_NUCLIDE_* macro indexes the nuclide of that name', not bad, '; '.join(bad[:4]), len(rn_names)))
    return res, ents, lines


def nuclide_lines(run, H, ents, lines):
    """every X-ray line a nuclide lists has an energy for the daughter element.  Two halves: (code, solver) LineEnergy is the documented
    function of the table cells for plain and composed lines - the C10/C01 obligations, run here under C15; (data, direct) the cells that
    function reads are positive in the table regenerated from the current data files."""
    from vlib import datalemma
    from checks import c10
    T = datalemma.Tables(run)
    Z1 = H['ZMAX'] + 1
    LE = T.d2('LineEnergy_arr', Z1, H['LINENUM'])
    cell = lambda z, nm: LE[z][-H[nm + '_LINE'] - 1]
    doublet = {H[d + '_LINE']: d for d in c10.DOUBLETS}
    groups = {H[g + '_LINE']: g for g in ('KA', 'KB', 'LA', 'LB') if g + '_LINE' in H}
    bad = []; n = 0; kinds = {}
    for nm, Z, A, N, Zx, nx, xl, xi, ng, ge, gi in ents:
        Zx = int(Zx)
        for l in lines.get(xl, []):
            if l not in H: continue
            v = H[l]; n += 1
            if v in doublet:
                a, b = c10.split_doublet(doublet[v]); ok = cell(Zx, a) > 0 or cell(Zx, b) > 0; kinds[doublet[v]] = kinds.get(doublet[v], 0) + 1
            elif v in groups:
                ok = True; kinds[groups[v]] = kinds.get(groups[v], 0) + 1          # group means: positive whenever a member is (C10); members are checked as plain lines below if listed
            else:
                ok = 0 <= -v - 1 < H['LINENUM'] and LE[Zx][-v - 1] > 0; kinds['plain'] = kinds.get('plain', 0) + 1
            if not ok: bad.append('%s: %s has no energy cell for Z=%d' % (nm, l, Zx))
    return [('every X-ray line listed by a nuclide has a positive energy cell (plain line) or a member with one (doublet) for the daughter element: %s' % kinds, not bad, '; '.join(bad[:5]), n)]


def mendel_symbols(run):
    txt = open(run.src('xrayglob.c')).read()
    m = re.search(r'MendelArray\[MENDEL_MAX\]\s*=\s*\{(.*?)\};', txt, re.S)
    return {int(a): b for a, b in re.findall(r'\{\s*(\d+)\s*,\s*"(\w+)"\s*\}', m.group(1))} if m else {}


def check(run):
    from vlib import datalemma
    H = macros(run)
    run.assumptions += ['allocation never fails', 'code obligations: arbitrary 3-entry catalogue (the functions have no size-dependent branch); data obligations: the shipped catalogues, evaluated directly (closed facts)']
    from checks import c07
    run.parallel(small_catalogue(run) + c07.symbols(run, prefix='C15'))
    res, rn, lines = catalogue_data(run, H)
    res += nuclide_lines(run, H, rn, lines)
    # code half of "every nuclide line has an energy": LineEnergy is the documented function of the cells (C10 doublets/aliases, C01 plain lines)
    from checks import frame
    frame.sweep(run, 'C15', keep=lambda oid: (oid.startswith('C10/') and any(('/%s/' % d) in oid for d in ('L1N67', 'L1O45', 'L1P23', 'L2P23', 'L3O45', 'L3P23', 'L3P45'))) or oid == 'C10/aliases'
                or oid.startswith('C01/B/LineEnergy'), modules=['c10', 'c01'])
    datalemma.report(run, 'C15/data/catalogues', res, ['xraylib-nist-compounds-internal.h', 'xraylib-radionuclides-internal.h', 'xraylib-nist-compounds.h', 'xraylib-radionuclides.h'],
                     'shipped NIST and radionuclide catalogues: well-formed entries, unique names, index macros name the entry they index')
