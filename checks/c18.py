# C18 — the C++ wrappers return what C returns and throw exactly when C reports an error (DESIGN.md §C18) — scalar wrappers
import os, re, z3
from z3 import BitVec, BitVecVal, And, Or, Not, Implies, If, RealVal, BoolVal, Real, Bool, IntVal
from vlib import bcheck, core
from vlib.headers import macros
from vlib.irsym import Eval, Prim, P, parse_module, compile_ir, Module, conc
from checks import frame

S32 = z3.BitVecSort(32); R = z3.RealSort()
EXC = {'_ZTISt9bad_alloc': 0, '_ZTISt16invalid_argument': 1, '_ZTISt13runtime_error': 2}
CTORS = {'_ZNSt9bad_allocC2Ev': None, '_ZNSt9bad_allocC1Ev': None, '_ZNSt16invalid_argumentC1EPKc': 1, '_ZNSt16invalid_argumentC2EPKc': 1, '_ZNSt13runtime_errorC1EPKc': 1, '_ZNSt13runtime_errorC2EPKc': 1}


def wrapper_list(run):
    """(name, C parameter types without the error slot, has leading string) for every _XRL_FUNCTION instantiation of the current header"""
    hdr = open(os.path.join(core.REPO, 'cplusplus', 'xraylib++.h')).read()
    names = re.findall(r'^\s*_XRL_FUNCTION\((\w+)\)', hdr, flags=re.M)
    protos = frame.prototypes(); out = []; missing = []
    for n in names:
        if n not in protos: missing.append(n); continue
        decl, params, _ = protos[n]
        ps = [p.strip() for p in params.split(',')]
        if not ps or 'xrl_error' not in ps[-1]: missing.append(n); continue
        tys = []
        for p in ps[:-1]:
            if 'char' in p: tys.append('str')
            elif re.match(r'(const\s+)?double\b', p): tys.append('double')
            elif re.match(r'(const\s+)?int\b', p): tys.append('int')
            else: tys.append('?')
        if '?' in tys or not decl.startswith('double'): missing.append(n); continue
        out.append((n, tys))
    return out, missing, names


def shim_source(wr):
    L = ['#include "xraylib++.h"', 'extern "C" __attribute__((noinline)) void vshim__process_error(xrl_error *e) { xrlpp::_process_error(e); }']
    for n, tys in wr:
        ps = []; args = []
        for i, t in enumerate(tys):
            if t == 'str': ps.append('const std::string &a%d' % i)
            else: ps.append('%s a%d' % (t, i))
            args.append('a%d' % i)
        L.append('extern "C" __attribute__((noinline)) double vshim_%s(%s) { return xrlpp::%s(%s); }' % (n, ', '.join(ps), n, ', '.join(args)))
    return '\n'.join(L) + '\n'


def mk_eval(mod, cfuncs):
    ev = Eval(mod, prims={f: Prim() for f in cfuncs}); ev.err_objs = {}
    def alloc_exc(ev_, st, args, ins): return P.to('exc:%d' % next(ev_.fresh), (0,))
    def frees(st): return sum([v for k, v in st.cnt.items() if k[0] == 'free'], IntVal(0))
    def ctor(kind):
        def f(ev_, st, args, ins):
            t = args[0].single()
            if t in (Ellipsis, None): raise Exception('exception object is not a single known object')
            if kind == 'msg':
                # the std exception copies the C string NOW: it must not have been released yet
                ev_.oblig.append((st.pc, frees(st) == 0, 'exception message read from an error that was already released (use after free)'))
                st.mem[(t[0], ('msg',))] = args[1]
            elif kind == 'copy':
                src = args[1].single()
                st.mem[(t[0], ('msg',))] = st.mem.get((src[0], ('msg',)), P.null()) if src not in (Ellipsis, None) else P.null()
            return None
        return f
    def throw(ev_, st, args, ins):
        ti = args[1].single(); name = ti[0][2:] if ti not in (Ellipsis, None) else '?'
        st.mem[('thrown', ('flag',))] = BoolVal(True)
        st.mem[('thrown', ('type',))] = BitVecVal(EXC.get(name, 9), 8)
        e = args[0].single()
        st.mem[('thrown', ('msg',))] = st.mem.get((e[0], ('msg',)), P.null()) if e not in (Ellipsis, None) else P.null()
        return None
    def efree(ev_, st, args, ins):
        for g, t in args[0].alts:
            if t is None: continue
            k = ('free', t[0]); st.cnt[k] = st.cnt.get(k, IntVal(0)) + If(g, 1, 0)
        return None
    def cstr(ev_, st, args, ins):
        t = args[0].single()
        return P.to('cstr_of:%s' % (t[0] if t not in (Ellipsis, None) else '?'), (0,))
    ev.hooks['__cxa_allocate_exception'] = alloc_exc
    for nm in list(mod.decls) + list(mod.funcs):
        m = re.fullmatch(r'_ZNSt(9bad_alloc|16invalid_argument|13runtime_error|11logic_error)([CD])[12]E(.*)', nm)
        if not m: continue
        if m.group(2) == 'D': ev.hooks[nm] = lambda *a: None
        elif m.group(3) == 'PKc': ev.hooks[nm] = ctor('msg')
        elif m.group(3) in ('OS_', 'RKS_'): ev.hooks[nm] = ctor('copy')
        elif m.group(3) == 'v': ev.hooks[nm] = ctor('plain')
    ev.hooks['__cxa_throw'] = throw
    ev.hooks['xrl_error_free'] = efree
    ev.hooks['__cxa_free_exception'] = lambda *a: None
    ev.hooks['_ZNKSt7__cxx1112basic_stringIcSt11char_traitsIcESaIcEE5c_strEv'] = cstr
    return ev


def b_process_error(cl, mod):
    ev = mk_eval(mod, [])
    # arbitrary error object: code and message are symbolic; NULL is the other case
    code = BitVec('code', 32)
    st0 = None
    from vlib.irsym import State
    st = State(BoolVal(True)); st.mem[('h:err', (0, 0))] = code; st.mem[('h:err', (0, 1))] = P.to('h:message', (0,))
    st.mem[('thrown', ('flag',))] = BoolVal(False); st.mem[('thrown', ('type',))] = BitVecVal(9, 8); st.mem[('thrown', ('msg',))] = P.null()
    rv, after = ev.run('vshim__process_error', [P.to('h:err', (0,))], st)
    thrown = after.mem[('thrown', ('flag',))]; ty = after.mem[('thrown', ('type',))]; msg = after.mem[('thrown', ('msg',))]
    freed = after.cnt.get(('free', 'h:err'), IntVal(0))
    fn = ['xrlpp::_process_error']
    cl.add('C18/process_error/throws', ev, BoolVal(True), And(thrown, ty == If(code == 0, BitVecVal(0, 8), If(code == 1, BitVecVal(1, 8), BitVecVal(2, 8)))),
           'a non-NULL error always throws: bad_alloc for XRL_ERROR_MEMORY, invalid_argument for XRL_ERROR_INVALID_ARGUMENT, runtime_error for every other code', functions=fn)
    from vlib.irsym import mk_or
    cl.add('C18/process_error/message', ev, code != 0, mk_or([g for g, t in msg.alts if t is not None and t[0] == 'h:message']),
           'the exception is constructed from the C error message', functions=fn)
    cl.add('C18/process_error/freed', ev, BoolVal(True), freed == 1, 'the C error object is released exactly once before the exception leaves (no leak)', functions=fn)
    st2 = State(BoolVal(True)); st2.mem[('thrown', ('flag',))] = BoolVal(False)
    rv2, after2 = ev.run('vshim__process_error', [P.null()], st2)
    cl.add('C18/process_error/null', ev, BoolVal(True), Not(after2.mem[('thrown', ('flag',))]), 'NULL (no error) returns normally', functions=fn)
    cl.side_obligations('C18/process_error/side', ev, functions=fn)


def b_wrapper(cl, mod, name, tys):
    ev = mk_eval(mod, [name])
    args = []; cargs = []
    for i, t in enumerate(tys):
        if t == 'int': v = BitVec('a%d' % i, 32); args.append(v); cargs.append(v)
        elif t == 'double': v = Real('a%d' % i); args.append(v); cargs.append(v)
        else: args.append(P.to('h:str%d' % i, (0,))); cargs.append(None)
    from vlib.irsym import State
    st = State(BoolVal(True)); st.mem[('thrown', ('flag',))] = BoolVal(False); st.mem[('thrown', ('type',))] = BitVecVal(9, 8); st.mem[('thrown', ('msg',))] = P.null()
    rv, after = ev.run('vshim_' + name, args, st)
    fn = ['xrlpp::' + name, 'xrlpp::_process_error']
    calls = [c for c in ev.calls if c[1] == name]
    okc = len(calls) == 1
    detail = 'exactly one call of ::%s' % name
    if okc:
        cpc, _, cav = calls[0]
        if len(cav) != len(tys) + 1: okc = False; detail = 'arity'
        for i, t in enumerate(tys):
            if not okc: break
            a = cav[i]
            if t == 'str':
                tt = a.single() if isinstance(a, P) else Ellipsis
                if tt in (Ellipsis, None) or tt[0] != 'cstr_of:h:str%d' % i: okc = False; detail = 'argument %d is not c_str() of the wrapper\'s string argument' % i
            elif not (hasattr(a, 'eq') and z3.simplify(a).eq(z3.simplify(cargs[i]))): okc = False; detail = 'argument %d differs from the wrapper\'s argument' % i
        slot = cav[-1].single() if okc and isinstance(cav[-1], P) else Ellipsis
        if okc and (slot in (Ellipsis, None) or not slot[0].startswith('a:')): okc = False; detail = 'error slot is not a local'
    vals = [a for a in cargs if a is not None]
    r = ev.uf(name, [a.sort() for a in vals], R)(*vals) if okc else None
    cl.add('C18/%s/call' % name, ev, BoolVal(True), BoolVal(bool(okc)), 'the wrapper calls the C function of the SAME name once, with its own arguments in order (c_str() of the string) and the address of a local error slot: ' + detail, functions=fn)
    if not okc: return
    thrown = after.mem[('thrown', ('flag',))]
    over = sum([v for k, v in after.cnt.items() if k[0] == 'over'], IntVal(0))
    cl.add('C18/%s/value' % name, ev, r != 0, And(Not(thrown), rv == r, over == 0), 'C succeeds: the wrapper returns the C value unchanged and does not throw (slot was NULL when passed)', functions=fn)
    errobjs = [k[1] for k in after.cnt if k[0] == 'free']
    freed = sum([after.cnt[('free', o)] for o in errobjs], IntVal(0))
    ty = after.mem[('thrown', ('type',))]
    codeuf = ev.uf(name + '|errcode', [a.sort() for a in vals], S32)(*vals)
    cl.add('C18/%s/throws' % name, ev, r == 0, And(thrown, ty == If(codeuf == 0, BitVecVal(0, 8), If(codeuf == 1, BitVecVal(1, 8), BitVecVal(2, 8)))),
           'C reports an error: the wrapper throws, and the exception type is the one mapped from the C error code', functions=fn)
    msg = after.mem[('thrown', ('msg',))]
    from vlib.irsym import mk_or
    cl.add('C18/%s/message' % name, ev, And(r == 0, codeuf != 0), mk_or([g for g, t in msg.alts if t is not None and t[0].startswith('msg:')]),
           'the exception carries the message of the C error', functions=fn)
    cl.add('C18/%s/freed' % name, ev, BoolVal(True), freed == If(r == 0, IntVal(1), IntVal(0)), 'the C error is released exactly once when there is one (no leak, no double free), and nothing is released otherwise', functions=fn)
    cl.side_obligations('C18/%s/side' % name, ev, functions=fn)


def check(run):
    H = macros(run)
    wr, missing, names = wrapper_list(run)
    d = os.path.join(run.tmp, 'c18'); os.makedirs(d, exist_ok=True)
    src = os.path.join(d, 'shim.cpp'); open(src, 'w').write(shim_source(wr))
    incs = bcheck.clang_incs(run) + ['-I' + os.path.join(core.REPO, 'cplusplus')]
    try:
        mod = parse_module(compile_ir(src, incs, cxx=True), Module())
    except Exception as e:
        ob = core.Ob('C18/build', 'B:irsym', ['cplusplus/xraylib++.h'], '', 'compile the wrapper shim'); ob.reason = 'shim: %s' % str(e)[:800]; run.add_ob(ob); return
    run.assumptions += ['real arithmetic for double is irrelevant here (values are passed through)', 'exception constructors do not throw (allocation failure out of scope)',
                        'COVERED: _process_error and the %d scalar _XRL_FUNCTION wrappers; NOT covered: wrappers returning classes/vectors/strings/complex (libstdc++ internals cannot be encoded by the IR evaluator): %s'
                        % (len(wr), 'compoundData, radioNuclideData, compoundDataNIST, Crystal, list functions, AtomicNumberToSymbol, Refractive_Index, SymbolToAtomicNumber')]
    run.extra['wrappers_in_header'] = len(names); run.extra['wrappers_encoded'] = len(wr); run.extra['wrappers_not_encoded'] = missing
    groups = [('C18/process_error', lambda cl: b_process_error(cl, mod), ())]
    chunk = 8
    for i in range(0, len(wr), chunk):
        part = wr[i:i + chunk]
        groups.append(('C18/wrappers/%d' % (i // chunk), (lambda cl, part=part: [b_wrapper(cl, mod, n, t) for n, t in part]), ()))
    bcheck.run_groups(run, groups)
