# C18 — the C++ wrappers return what C returns and throw exactly when C reports an error (DESIGN.md §C18) — scalar wrappers
import os, re, z3
from z3 import BitVec, BitVecVal, And, Or, Not, Implies, If, RealVal, BoolVal, Real, Bool, IntVal
from vlib import bcheck, core
from vlib.headers import macros
from vlib.irsym import Eval, Prim, P, parse_module, compile_ir, Module, conc, resolve, State, mk_or
from checks import frame

S32 = z3.BitVecSort(32); R = z3.RealSort()
EXC = {'_ZTISt9bad_alloc': 0, '_ZTISt16invalid_argument': 1, '_ZTISt13runtime_error': 2}
CTORS = {'_ZNSt9bad_allocC2Ev': None, '_ZNSt9bad_allocC1Ev': None, '_ZNSt16invalid_argumentC1EPKc': 1, '_ZNSt16invalid_argumentC2EPKc': 1, '_ZNSt13runtime_errorC1EPKc': 1, '_ZNSt13runtime_errorC2EPKc': 1}


def wrapper_list(run):
    """(name, C parameter types without the error slot, has leading string) for every _XRL_FUNCTION instantiation of the current header"""
    hdr = open(os.path.join(core.REPO, 'cplusplus', 'xraylib++.h')).read()
    names = re.findall(r'^\s*_XRL_FUNCTION\((\w+)\)', hdr, flags=re.M)
    protos = frame.prototypes(); out = []; missing = []
    for n in names:
        if n not in protos: missing.append(n); continue
        decl, params, _ = protos[n]
        ps = [p.strip() for p in params.split(',')]
        if not ps or 'xrl_error' not in ps[-1]: missing.append(n); continue
        tys = []
        for p in ps[:-1]:
            if 'char' in p: tys.append('str')
            elif re.match(r'(const\s+)?double\b', p): tys.append('double')
            elif re.match(r'(const\s+)?int\b', p): tys.append('int')
            else: tys.append('?')
        if '?' in tys or not decl.startswith('double'): missing.append(n); continue
        out.append((n, tys))
    return out, missing, names


CTOR_SHIM = ('extern "C" __attribute__((noinline)) void vshim_Struct_ctor(void *mem, const std::string &name, double a, double b, double c, double alpha, double beta, double gamma, double volume, '
             'const std::vector<xrlpp::Crystal::Atom> &atoms) { new (mem) xrlpp::Crystal::Struct(name, a, b, c, alpha, beta, gamma, volume, atoms); }')
CXX_TY = {'int': 'int', 'double': 'double', 'str': 'const std::string &', 'pd': 'double *', 'S': 'xrlpp::Crystal::Struct *'}


def extra_specs(protos):
    """wrappers outside the _XRL_FUNCTION family that pass scalars through: Crystal::Struct members, their namespace-level
    forwards, and the hand-written free functions.  The expected C function and argument order come from the C prototype
    (positional), not from the wrapper body."""
    hdr = open(os.path.join(core.REPO, 'cplusplus', 'xraylib++.h')).read()
    specs = []; skipped = []
    def ctys(cname, skip_first=0):
        ps = [p.strip() for p in protos[cname][1].split(',')][skip_first:-1]; out = []
        for p_ in ps:
            if 'char' in p_: out.append('str')
            elif re.match(r'(const\s+)?double\s*\*', p_): out.append('pd')
            elif re.match(r'(const\s+)?double\b', p_): out.append('double')
            elif re.match(r'(const\s+)?int\b', p_): out.append('int')
            elif 'Crystal_Array' in p_: out.append('nullarr')
            else: out.append('?')
        return out
    def rkind(cname):
        d = protos[cname][0]
        return 'complex' if d.startswith('xrlComplex') else 'int' if d.startswith('int') else 'double' if d.startswith('double') else '?'
    # Struct members: name(...) { ... ::C(cs, ...) }
    m = re.search(r'class Struct \{(.*?)// constructor', hdr, flags=re.S)
    members = re.findall(r'^\s*(?:double|int|std::complex<double>)\s+(\w+)\s*\(', m.group(1), flags=re.M) if m else []
    for mem in members:
        cname = mem if mem in protos and 'Crystal_Struct' in protos[mem][1] else 'Crystal_' + mem
        if cname not in protos: skipped.append('Struct::' + mem); continue
        tys = ctys(cname, 1); rk = rkind(cname)
        if '?' in tys or rk == '?': skipped.append('Struct::' + mem); continue
        wt = [t for t in tys if t != 'nullarr']
        for form in ('member', 'free'):
            for part in (('re', 'im') if rk == 'complex' else ('',)):
                cargs = ', '.join('a%d' % i for i in range(len(wt)))
                call = ('s->%s(%s)' % (mem, cargs)) if form == 'member' else ('xrlpp::Crystal::%s(*s%s%s)' % (mem, ', ' if cargs else '', cargs))
                if part: call += '.real()' if part == 're' else '.imag()'
                specs.append(dict(shim='%s_%s%s' % ('Struct' if form == 'member' else 'Crystal', mem, '_' + part if part else ''), cfunc=cname, wtys=['S'] + wt,
                                  expect=['cs'] + [('null' if t == 'nullarr' else 'arg') for t in tys], ret=('int' if rk == 'int' else 'double'), part=part, call=call,
                                  label='xrlpp::Crystal::%s%s' % ('Struct::' if form == 'member' else '', mem)))
    for cxx, cname in (('xrlpp::SymbolToAtomicNumber', 'SymbolToAtomicNumber'), ('xrlpp::Crystal::Atomic_Factors', 'Atomic_Factors'), ('xrlpp::Refractive_Index', 'Refractive_Index')):
        if cname not in protos or not re.search(r'\b%s\s*\(' % cname, hdr): skipped.append(cxx); continue
        tys = ctys(cname); rk = rkind(cname)
        if '?' in tys or rk == '?': skipped.append(cxx); continue
        for part in (('re', 'im') if rk == 'complex' else ('',)):
            call = '%s(%s)' % (cxx, ', '.join('a%d' % i for i in range(len(tys)))) + ('.real()' if part == 're' else '.imag()' if part == 'im' else '')
            specs.append(dict(shim=cname + ('_' + part if part else ''), cfunc=cname, wtys=tys, expect=['arg'] * len(tys), ret=('int' if rk == 'int' else 'double'), part=part, call=call, label=cxx))
    return specs, skipped


def xrl_specs(wr):
    return [dict(shim=n, cfunc=n, wtys=tys, expect=['arg'] * len(tys), ret='double', part='', call='xrlpp::%s(%s)' % (n, ', '.join('a%d' % i for i in range(len(tys)))), label='xrlpp::' + n) for n, tys in wr]


def shim_source(specs):
    L = ['#include "xraylib++.h"', '#include <new>', CTOR_SHIM, 'extern "C" __attribute__((noinline)) void vshim__process_error(xrl_error *e) { xrlpp::_process_error(e); }']
    for sp in specs:
        ps = []; k = 0
        for t in sp['wtys']:
            if t == 'S': ps.append('xrlpp::Crystal::Struct *s')
            else: ps.append('%s a%d' % (CXX_TY[t], k)); k += 1
        L.append('extern "C" __attribute__((noinline)) %s vshim_%s(%s) { return %s; }' % (sp['ret'], sp['shim'], ', '.join(ps), sp['call']))
    return '\n'.join(L) + '\n'


def mk_eval(mod, cfuncs):
    def cprim(name):
        def post(ev_, st, args, ins):
            vals = [a for a in args[:-1] if not isinstance(a, P)]
            rty = resolve(ins.rty, ev_.mod)
            def val(tag, sort): return ev_.uf(name + tag, [a.sort() for a in vals], sort)(*vals) if vals else z3.Const(name + tag, sort)
            if rty.kind == 'fp': r = val('', R)
            elif rty.kind == 'int': r = val('', z3.BitVecSort(rty.bits))
            elif rty.kind == 'struct': r = [val('|%d' % k, R) for k in range(len(rty.fields))]
            else: raise Exception('return type of %s' % name)
            ev_.set_error(st, args[-1], code=val('|errcode', S32), msg=None, how='prim:' + name, when=val('|err', z3.BoolSort()))
            return r
        return Prim(kind='custom', post=post)
    ev = Eval(mod, prims={f: cprim(f) for f in cfuncs}); ev.err_objs = {}
    def alloc_exc(ev_, st, args, ins): return P.to('exc:%d' % next(ev_.fresh), (0,))
    def frees(st): return sum([v for k, v in st.cnt.items() if k[0] == 'free'], IntVal(0))
    def ctor(kind):
        def f(ev_, st, args, ins):
            t = args[0].single()
            if t in (Ellipsis, None): raise Exception('exception object is not a single known object')
            if kind == 'msg':
                # the std exception copies the C string NOW: it must not have been released yet
                ev_.oblig.append((st.pc, frees(st) == 0, 'exception message read from an error that was already released (use after free)'))
                st.mem[(t[0], ('msg',))] = args[1]
            elif kind == 'copy':
                src = args[1].single()
                st.mem[(t[0], ('msg',))] = st.mem.get((src[0], ('msg',)), P.null()) if src not in (Ellipsis, None) else P.null()
            return None
        return f
    def throw(ev_, st, args, ins):
        ti = args[1].single(); name = ti[0][2:] if ti not in (Ellipsis, None) else '?'
        st.mem[('thrown', ('flag',))] = BoolVal(True)
        st.mem[('thrown', ('type',))] = BitVecVal(EXC.get(name, 9), 8)
        e = args[0].single()
        st.mem[('thrown', ('msg',))] = st.mem.get((e[0], ('msg',)), P.null()) if e not in (Ellipsis, None) else P.null()
        return None
    def efree(ev_, st, args, ins):
        for g, t in args[0].alts:
            if t is None: continue
            k = ('free', t[0]); st.cnt[k] = st.cnt.get(k, IntVal(0)) + If(g, 1, 0)
        return None
    def cstr(ev_, st, args, ins):
        t = args[0].single()
        return P.to('cstr_of:%s' % (t[0] if t not in (Ellipsis, None) else '?'), (0,))
    ev.hooks['__cxa_allocate_exception'] = alloc_exc
    for nm in list(mod.decls) + list(mod.funcs):
        m = re.fullmatch(r'_ZNSt(9bad_alloc|16invalid_argument|13runtime_error|11logic_error)([CD])[12]E(.*)', nm)
        if not m: continue
        if m.group(2) == 'D': ev.hooks[nm] = lambda *a: None
        elif m.group(3) == 'PKc': ev.hooks[nm] = ctor('msg')
        elif m.group(3) in ('OS_', 'RKS_'): ev.hooks[nm] = ctor('copy')
        elif m.group(3) == 'v': ev.hooks[nm] = ctor('plain')
    ev.hooks['__cxa_throw'] = throw
    ev.hooks['xrl_error_free'] = efree
    ev.hooks['__cxa_free_exception'] = lambda *a: None
    ev.hooks['_ZNKSt7__cxx1112basic_stringIcSt11char_traitsIcESaIcEE5c_strEv'] = cstr
    return ev


def b_process_error(cl, mod):
    ev = mk_eval(mod, [])
    # arbitrary error object: code and message are symbolic; NULL is the other case
    code = BitVec('code', 32)
    st0 = None
    st = State(BoolVal(True)); st.mem[('h:err', (0, 0))] = code; st.mem[('h:err', (0, 1))] = P.to('h:message', (0,))
    st.mem[('thrown', ('flag',))] = BoolVal(False); st.mem[('thrown', ('type',))] = BitVecVal(9, 8); st.mem[('thrown', ('msg',))] = P.null()
    rv, after = ev.run('vshim__process_error', [P.to('h:err', (0,))], st)
    thrown = after.mem[('thrown', ('flag',))]; ty = after.mem[('thrown', ('type',))]; msg = after.mem[('thrown', ('msg',))]
    freed = after.cnt.get(('free', 'h:err'), IntVal(0))
    fn = ['xrlpp::_process_error']
    cl.add('C18/process_error/throws', ev, BoolVal(True), And(thrown, ty == If(code == 0, BitVecVal(0, 8), If(code == 1, BitVecVal(1, 8), BitVecVal(2, 8)))),
           'a non-NULL error always throws: bad_alloc for XRL_ERROR_MEMORY, invalid_argument for XRL_ERROR_INVALID_ARGUMENT, runtime_error for every other code', functions=fn)
    cl.add('C18/process_error/message', ev, code != 0, mk_or([g for g, t in msg.alts if t is not None and t[0] == 'h:message']),
           'the exception is constructed from the C error message', functions=fn)
    cl.add('C18/process_error/freed', ev, BoolVal(True), freed == 1, 'the C error object is released exactly once before the exception leaves (no leak)', functions=fn)
    st2 = State(BoolVal(True)); st2.mem[('thrown', ('flag',))] = BoolVal(False)
    rv2, after2 = ev.run('vshim__process_error', [P.null()], st2)
    cl.add('C18/process_error/null', ev, BoolVal(True), Not(after2.mem[('thrown', ('flag',))]), 'NULL (no error) returns normally', functions=fn)
    cl.side_obligations('C18/process_error/side', ev, functions=fn)


def b_wrapper(cl, mod, sp):
    name = sp['cfunc']; sh = sp['shim']
    ev = mk_eval(mod, [name])
    st = State(BoolVal(True)); st.mem[('thrown', ('flag',))] = BoolVal(False); st.mem[('thrown', ('type',))] = BitVecVal(9, 8); st.mem[('thrown', ('msg',))] = P.null()
    args = []; k = 0
    for t in sp['wtys']:
        if t == 'S':
            sty = mod.types.get('class.xrlpp::Crystal::Struct')
            idx = [i for i, f in enumerate(sty.fields) if f.kind == 'ptr' and f.to.kind == 'named' and f.to.name == 'struct.Crystal_Struct'] if sty is not None else []
            if len(idx) != 1: raise Exception('cannot locate Struct::cs')
            st.mem[('h:S', (0, idx[0]))] = P.to('h:cs', (0,)); args.append(P.to('h:S', (0,))); continue
        if t == 'int': args.append(BitVec('a%d' % k, 32))
        elif t == 'double': args.append(Real('a%d' % k))
        elif t == 'str': args.append(P.to('h:str%d' % k, (0,)))
        elif t == 'pd': args.append(P.to('h:out%d' % k, (0,)))
        k += 1
    rv, after = ev.run('vshim_' + sh, args, st)
    fn = [sp['label'], 'xrlpp::_process_error']
    calls = [c for c in ev.calls if c[1] == name]
    okc = len(calls) == 1
    detail = 'exactly one call of ::%s' % name
    vals = []
    if okc:
        cpc, _, cav = calls[0]
        if len(cav) != len(sp['expect']) + 1: okc = False; detail = 'arity'
        wi = 0                                                     # index into the wrapper's arguments
        for i, e in enumerate(sp['expect']):
            if not okc: break
            a = cav[i]
            if e == 'null':
                if not (isinstance(a, P) and a.single() is None): okc = False; detail = 'argument %d should be NULL (built-in collection)' % i
                continue
            w = args[wi]; t = sp['wtys'][wi]; wi += 1
            if e == 'cs':
                tt = a.single() if isinstance(a, P) else Ellipsis
                if tt in (Ellipsis, None) or tt[0] != 'h:cs': okc = False; detail = 'argument %d is not the wrapped Crystal_Struct of this object' % i
            elif t == 'str':
                tt = a.single() if isinstance(a, P) else Ellipsis
                if tt in (Ellipsis, None) or tt[0] != 'cstr_of:' + w.single()[0]: okc = False; detail = 'argument %d is not c_str() of wrapper argument %d' % (i, wi - 1)
            elif t == 'pd':
                tt = a.single() if isinstance(a, P) else Ellipsis
                if tt in (Ellipsis, None) or tt != w.single(): okc = False; detail = 'pointer argument %d is not wrapper argument %d' % (i, wi - 1)
            else:
                if not (hasattr(a, 'eq') and z3.simplify(a).eq(z3.simplify(w))): okc = False; detail = 'argument %d differs from wrapper argument %d (order/identity)' % (i, wi - 1)
                vals.append(w)
        slot = cav[-1].single() if okc and isinstance(cav[-1], P) else Ellipsis
        if okc and (slot in (Ellipsis, None) or not slot[0].startswith('a:')): okc = False; detail = 'error slot is not a local'
    cl.add('C18/%s/call' % sh, ev, BoolVal(True), BoolVal(bool(okc)), 'the wrapper calls the intended C function (%s) once, with its own arguments in the C prototype\'s order (c_str() of strings, the wrapped pointer of the object) and the address of a local error slot: %s' % (name, detail), functions=fn)
    if not okc: return
    def val(tag, sort): return ev.uf(name + tag, [a.sort() for a in vals], sort)(*vals) if vals else z3.Const(name + tag, sort)
    if sp['part']: r = val('|%d' % (0 if sp['part'] == 're' else 1), R)
    elif sp['ret'] == 'int': r = val('', S32)
    else: r = val('', R)
    err = val('|err', z3.BoolSort()); codeuf = val('|errcode', S32)
    thrown = after.mem[('thrown', ('flag',))]
    over = sum([v for k_, v in after.cnt.items() if k_[0] == 'over'], IntVal(0))
    cl.add('C18/%s/value' % sh, ev, Not(err), And(Not(thrown), rv == r, over == 0), 'C succeeds: the wrapper returns the C value unchanged and does not throw (slot was NULL when passed)', functions=fn)
    freed = sum([v for k_, v in after.cnt.items() if k_[0] == 'free'], IntVal(0))
    ty = after.mem[('thrown', ('type',))]
    cl.add('C18/%s/throws' % sh, ev, err, And(thrown, ty == If(codeuf == 0, BitVecVal(0, 8), If(codeuf == 1, BitVecVal(1, 8), BitVecVal(2, 8)))),
           'C reports an error: the wrapper throws, and the exception type is the one mapped from the C error code', functions=fn)
    msg = after.mem[('thrown', ('msg',))]
    cl.add('C18/%s/message' % sh, ev, And(err, codeuf != 0), mk_or([g for g, t in msg.alts if t is not None and t[0].startswith('msg:')]),
           'the exception carries the message of the C error', functions=fn)
    cl.add('C18/%s/freed' % sh, ev, BoolVal(True), freed == If(err, IntVal(1), IntVal(0)), 'the C error is released exactly once when there is one (no leak, no double free), and nothing is released otherwise', functions=fn)
    cl.side_obligations('C18/%s/side' % sh, ev, functions=fn)


def b_struct_ctor(cl, mod, NAT=1):
    """the public Crystal::Struct constructor fills the C struct it owns with its own arguments (vector of NAT atoms; libstdc++ string /
    vector members are opaque: their constructors are no-ops here, size() = NAT, operator[](i) = the i-th source atom)"""
    ev = mk_eval(mod, [])
    st = State(BoolVal(True)); st.mem[('thrown', ('flag',))] = BoolVal(False); st.mem[('thrown', ('type',))] = BitVecVal(9, 8); st.mem[('thrown', ('msg',))] = P.null()
    def fresh_obj(tag):
        def f(ev_, st_, args, ins): return P.to('%s:%d' % (tag, next(ev_.fresh)), (0,))
        return f
    for nm in list(mod.decls) + list(mod.funcs):
        if re.fullmatch(r'_ZNSt7__cxx1112basic_stringIcSt11char_traitsIcESaIcEE(C[12]ERKS4_|D[12]Ev)', nm) or re.fullmatch(r'_ZNSt6vectorIN5xrlpp7Crystal4AtomESaIS2_EE(C[12]ERKS4_|D[12]Ev)', nm):
            ev.hooks[nm] = lambda *a: None
        elif re.fullmatch(r'_ZNKSt6vectorIN5xrlpp7Crystal4AtomESaIS2_EE4sizeEv', nm): ev.hooks[nm] = lambda ev_, st_, args, ins: BitVecVal(NAT, 64)
        elif re.fullmatch(r'_ZNKSt6vectorIN5xrlpp7Crystal4AtomESaIS2_EEixEm', nm):
            def at(ev_, st_, args, ins):
                i = z3.simplify(args[1])
                if not z3.is_bv_value(i): raise Exception('operator[] with a symbolic index')
                return P.to('h:atom%d' % i.as_long(), (0,))
            ev.hooks[nm] = at
    ev.hooks['xrl_malloc'] = fresh_obj('m'); ev.hooks['xrl_strdup'] = fresh_obj('dup')
    A = {k: Real(k) for k in ('a', 'b', 'c', 'alpha', 'beta', 'gamma', 'volume')}
    args = [P.to('h:S', (0,)), P.to('h:name', (0,))] + [A[k] for k in ('a', 'b', 'c', 'alpha', 'beta', 'gamma', 'volume')] + [P.to('h:atoms', (0,))]
    rv, after = ev.run('vshim_Struct_ctor', [P.to('h:S', (0,))] + args[1:], st)
    fn = ['xrlpp::Crystal::Struct::Struct(name, a, b, c, alpha, beta, gamma, volume, atoms)']
    sty = mod.types.get('class.xrlpp::Crystal::Struct')
    idx = [i for i, f in enumerate(sty.fields) if f.kind == 'ptr' and f.to.kind == 'named' and f.to.name == 'struct.Crystal_Struct']
    csp = after.mem.get(('h:S', (0, idx[0]))) if len(idx) == 1 else None
    cst = csp.single() if isinstance(csp, P) else Ellipsis
    ok = cst not in (Ellipsis, None) and cst[0].startswith('m:')
    cl.add('C18/Struct_ctor/owns', ev, BoolVal(True), BoolVal(bool(ok)), 'the constructor allocates the C struct it wraps (xrl_malloc) and stores it in the object', functions=fn)
    if not ok: return
    cs = cst[0]
    g = lambda k: after.mem.get((cs, (0, k)))
    names = ['a', 'b', 'c', 'alpha', 'beta', 'gamma', 'volume']
    conj = [g(1 + i) == A[k] if g(1 + i) is not None else BoolVal(False) for i, k in enumerate(names)]
    cl.add('C18/Struct_ctor/cell', ev, BoolVal(True), And(*conj), 'the wrapped C struct gets a, b, c, alpha, beta, gamma and volume of the constructor (in this order)', functions=fn)
    for i, k in enumerate(names):
        v = after.mem.get(('h:S', (0, 1 + i)))
        if v is None: conj.append(BoolVal(False))
    pub = [after.mem.get(('h:S', (0, 1 + i))) == A[k] if after.mem.get(('h:S', (0, 1 + i))) is not None else BoolVal(False) for i, k in enumerate(names)]
    cl.add('C18/Struct_ctor/public', ev, BoolVal(True), And(*pub), 'the public members a .. volume are the constructor arguments', functions=fn)
    nm_ = g(0); nt = nm_.single() if isinstance(nm_, P) else Ellipsis
    cl.add('C18/Struct_ctor/name', ev, BoolVal(True), BoolVal(nt not in (Ellipsis, None) and nt[0].startswith('dup:')), 'the C name is a copy (xrl_strdup) of the name argument', functions=fn)
    na = g(8); ap = g(9); at_ = ap.single() if isinstance(ap, P) else Ellipsis
    okat = at_ not in (Ellipsis, None) and at_[0].startswith('m:') and at_[0] != cs
    conj = [na == NAT if na is not None else BoolVal(False), BoolVal(bool(okat))]
    if okat:
        for i in range(NAT):
            for fidx in range(5):
                src = ev.load(after, P.to('h:atom%d' % i, (0, fidx)), None) if False else after.mem.get(('h:atom%d' % i, (0, fidx)), ev.init_cache.get(('h:atom%d' % i, (0, fidx))))
                dst = after.mem.get((at_[0], (i, fidx)))
                conj.append(dst == src if (dst is not None and src is not None) else BoolVal(False))
    cl.add('C18/Struct_ctor/atoms', ev, BoolVal(True), And(*conj), 'n_atom and every field of every atom are copied from the atoms argument into a fresh C array (%d atom)' % NAT, functions=fn)
    cl.side_obligations('C18/Struct_ctor/side', ev, functions=fn)


def check(run):
    wr, missing, names = wrapper_list(run)
    extra, skipped = extra_specs(frame.prototypes())
    specs = xrl_specs(wr) + extra
    d = os.path.join(run.tmp, 'c18'); os.makedirs(d, exist_ok=True)
    src = os.path.join(d, 'shim.cpp'); open(src, 'w').write(shim_source(specs))
    incs = bcheck.clang_incs(run) + ['-I' + os.path.join(core.REPO, 'cplusplus')]
    try:
        mod = parse_module(compile_ir(src, incs, cxx=True), Module())
    except Exception as e:
        ob = core.Ob('C18/build', 'B:irsym', ['cplusplus/xraylib++.h'], '', 'compile the wrapper shim'); ob.reason = 'shim: %s' % str(e)[:800]; run.add_ob(ob); return
    run.assumptions += ['C functions are uninterpreted: any return value, any decision to report an error, any error code (more behaviours than the real C functions have)',
                        'exception constructors/allocation do not throw (allocation failure out of scope); c_str() returns the buffer of its string',
                        'COVERED: _process_error, the %d _XRL_FUNCTION wrappers and %d member/free-function wrappers that pass scalars through (%s); NOT covered: wrappers that build classes/vectors/strings '
                        '(compoundData, compoundDataNIST, radioNuclideData, Crystal::Struct constructors/destructor/GetCrystal, Get*List, AtomicNumberToSymbol): libstdc++ container internals are outside the IR evaluator'
                        % (len(wr), len(extra), ', '.join(sorted(set(sp['label'] for sp in extra))))]
    run.extra['wrappers_in_header'] = len(names); run.extra['wrappers_encoded'] = len(specs); run.extra['wrappers_not_encoded'] = missing + skipped
    groups = [('C18/process_error', lambda cl: b_process_error(cl, mod), ()), ('C18/Struct_ctor', lambda cl: b_struct_ctor(cl, mod), ())]
    chunk = 8
    for i in range(0, len(specs), chunk):
        part = specs[i:i + chunk]
        groups.append(('C18/wrappers/%d' % (i // chunk), (lambda cl, part=part: [b_wrapper(cl, mod, sp) for sp in part]), ()))
    bcheck.run_groups(run, groups)
