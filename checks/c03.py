# C03 — errors are reported iff the call failed; results are finite (DESIGN.md §C03)
# Composition: every per-topic obligation already states the protocol of the function it encodes (value <=> empty slot, sentinel <=>
# exactly one error with a code from the enum and a non-empty literal message, no store over an existing error, same value with
# error == NULL, domain obligations: no division by zero / sqrt / log / asin domain error on success paths).  This check runs them
# under C03, adds the error module itself, and reports per exported function which obligations decide it.
from checks import frame

def check(run):
    run.assumptions += ['allocation never fails', 'Engine B claims use real arithmetic for double: "finite" is claimed as "no domain error on any success path" plus the value identities; overflow of exp() of an interpolated logarithm is outside',
                        'exported functions without any obligation are listed under coverage.uncovered_functions (no verdict is claimed for them)']
    import re
    def keep(oid):
        # quick tier: the long value identities of the structure factor / lattice geometry and the 3-character scanner shapes are left to C13 / C07 and to the thorough tier
        if run.tier != 'thorough' and (re.search(r'C13/F/n\d/value/', oid) or oid.startswith('C13/geometry') or oid.startswith('C13/d/') or '/scanner/n3/' in oid or '/readfile/near' in oid): return False
        return True
    kept = frame.sweep(run, 'C03', keep=keep)
    run.parallel(frame.error_api(run, 'C03'))
    cov = frame.coverage(run, run.obs)
    unc = sorted(n for n, v in cov.items() if not v)
    run.extra['functions_exported'] = len(cov); run.extra['functions_with_obligations'] = len(cov) - len(unc); run.extra['uncovered_functions'] = unc
    print('[C03] exported functions: %d, decided by at least one obligation: %d, without: %s' % (len(cov), len(cov) - len(unc), unc))
