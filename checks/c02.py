# C02 — interpolated quantities follow the shipped spline and never extrapolate (DESIGN.md §C02)
import z3
from z3 import BitVec, BitVecVal, SignExt, And, Or, Not, Implies, If, RealVal, BoolVal, Real, Bool
from vlib import bcheck
from vlib.headers import macros
from vlib.irsym import Eval, Prim, dbl, P, key_of, conc, resolve

S32 = z3.BitVecSort(32); S64 = z3.BitVecSort(64); R = z3.RealSort()


# ----------------------------------------------------------------------------------------- 1. splint itself, any n
def b_splint(cl, mod, H):
    ev = Eval(mod)
    f = mod.funcs['splint']
    info = ev.loops(f)
    if len(info['loops']) != 1:
        cl.note_unsupported('C02/splint/shape', 'expected exactly one loop in splint, found %d' % len(info['loops']), ['splint']); return
    (header, body), = info['loops'].items()
    phis = [i for i in f.blocks[header] if i.op == 'phi' and resolve(i.ty, mod).kind == 'int']
    npar = f.params[3][0]
    # khi starts at the table length n (4th parameter); klo is the other integer loop variable
    khi_c = [i.res for i in phis if any(v.kind == 'local' and v.name == npar and l not in body for v, l in i.inc)]
    if len(phis) != 2 or len(khi_c) != 1:
        cl.note_unsupported('C02/splint/shape', 'bisection loop not recognised (%d integer loop variables)' % len(phis), ['splint']); return
    khi_n = khi_c[0]; klo_n = [i.res for i in phis if i.res != khi_n][0]
    n = BitVec('n', 32); x = Real('x')
    XA = ev.uf('xa|1', [S64], R); YA = ev.uf('ya|1', [S64], R); Y2 = ev.uf('y2a|1', [S64], R)
    xa = lambda k: XA(SignExt(32, k) if k.size() == 32 else k)
    ya = lambda k: YA(SignExt(32, k)); y2 = lambda k: Y2(SignExt(32, k))
    def inv(vals, env):
        klo, khi = vals[klo_n], vals[khi_n]
        return And(klo >= 1, khi <= n, khi - klo > 1, klo < khi, xa(klo) <= x, Or(x < xa(khi), khi == n))
    ev.loop_inv[('splint', header)] = dict(inv=inv, rank=lambda vals, env: vals[khi_n] - vals[klo_n])
    r = ev.call('splint', [P.to('h:xa'), P.to('h:ya'), P.to('h:y2a'), n, x, P.to('h:yout')])
    yout = r.st.mem.get(('h:yout', (0,)))
    fr = ev.loop_havoc[('splint', header)]; kl = fr[klo_n]; kh = fr[khi_n]
    eps = dbl(1E-7)
    # r.st.pc carries the invariant assumed for the havocked loop variables; n is bounded so that klo+khi cannot wrap
    pre = And(n >= 1, n <= 1000000000, r.st.pc)
    ok = And(x - xa(n) <= eps, x >= xa(BitVecVal(1, 32)))
    fns = ['splint']
    cl.add('C02/splint/range', ev, pre, And(r.rv == If(ok, BitVecVal(1, 32), BitVecVal(0, 32)), r.errset == Not(ok), r.overwrites == 0,
                                           Implies(Not(ok), And(yout == 0, r.sets_on_slot == 1, r.errcode() == 1))),
           'splint succeeds iff x1 <= x <= xn + 1e-7; otherwise *y = 0 and exactly one INVALID_ARGUMENT error (no extrapolation beyond the band)', functions=fns,
           bounds='every table length 1 <= n <= 1e9 (loop cut with an invariant, no unrolling), every real x and knot values')
    # interval found by the bisection (existentially: the havocked klo, khi of the cut loop; for n <= 2 the loop is not entered)
    # witness for the existential 'there is an interval [lo, lo+1] such that ...': the last bisection step from (kl, kh)
    kmid = (kl + kh) >> 1
    lo = If(n > 2, If(xa(kmid) > x, kl, kmid), BitVecVal(1, 32)); hi = If(n > 2, If(xa(kmid) > x, kmid, kh), n)
    found = And(lo >= 1, hi <= n, Or(hi == lo + 1, And(n == 1, lo == 1, hi == 1)), xa(lo) <= x, Or(x < xa(hi), hi == n))
    h = xa(hi) - xa(lo)
    A = (xa(hi) - x) / h; B = (x - xa(lo)) / h
    cubic = A * ya(lo) + B * ya(hi) + ((A * A * A - A) * y2(lo) + (B * B * B - B) * y2(hi)) * (h * h) / 6
    cl.add('C02/splint/interval', ev, And(pre, ok), found,
           'the interval used brackets x: xa[lo] <= x and (x < xa[hi] or hi = n), hi = lo + 1 (bisection correct for every n; knots need not even be sorted for this)',
           functions=fns, bounds='every 1 <= n <= 1e9')
    cl.add('C02/splint/cubic', ev, And(pre, ok, h != 0), yout == cubic,
           '*y = A y_lo + B y_hi + ((A^3-A) y2_lo + (B^3-B) y2_hi) h^2/6 with A = (x_hi-x)/h, B = (x-x_lo)/h (as real expressions)', functions=fns, bounds='every 1 <= n <= 1e9')
    cl.add('C02/splint/degenerate', ev, And(pre, ok, h == 0), yout == (ya(lo) + ya(hi)) / 2, 'coincident knots: mean of the two ordinates', functions=fns)
    cl.add('C02/splint/knots_direct', ev, And(pre, ok, xa(hi) - xa(lo) > dbl(1E-12)), Implies(x == xa(lo), yout == ya(lo)),
           'at the lower knot of a non-degenerate interval the returned value is the tabulated ordinate (direct form, on the evaluated function)', functions=fns, timeout=40)
    cl.add('C02/splint/knots', ev, h != 0, And(Implies(x == xa(lo), cubic == ya(lo)), Implies(x == xa(hi), cubic == ya(hi))),
           'at a knot the cubic proved above equals the tabulated ordinate (A=1,B=0 resp. A=0,B=1)', functions=fns)
    # memory safety: every element read lies in [1, n] of its array
    bad = []
    for pc, kind, obj, path in ev.accesses:
        if obj in ('h:xa', 'h:ya', 'h:y2a') and kind == 'load':
            idx = path[-1]; idx = BitVecVal(idx, 64) if isinstance(idx, int) else idx
            ev.oblig.append((pc, And(idx >= 1, idx <= SignExt(32, n)), 'splint reads only elements 1..n of %s' % obj[2:]))
    cl.side_obligations('C02/splint/side', ev, assume=pre, functions=fns,
                        what='loop invariant initiation/preservation, termination (rank khi-klo), reads within [1,n], no division by zero on the cubic path')


# ----------------------------------------------------------------------------------------- 2. plumbing of the call sites
class SplintStub:
    """records calls to splint; result: fresh ok flag and fresh ordinate written through the out pointer"""
    def __init__(self, ev):
        self.ev = ev; self.calls = []
    def __call__(self, ev, st, args, ins):
        k = len(self.calls)
        ok = Bool('splint_ok#%d' % k); y = Real('splint_y#%d' % k)
        self.calls.append(dict(pc=st.pc, xa=args[0], ya=args[1], y2=args[2], n=args[3], x=args[4], ok=ok, y=y))
        ev.store(st, args[5], If(ok, y, RealVal(0)), None)
        ev.set_error(st, args[6], code=1, msg=None, how='splint', when=Not(ok))
        return If(ok, BitVecVal(1, 32), BitVecVal(0, 32))


def table_ptr(ev, p, name, idx_exprs):
    """conditions under which pointer value p is exactly <name>[idx...] - 1 (the 1-based view of the per-element row)"""
    conds = []
    for g, t in p.alts:
        if t is None: continue
        obj, path = t
        d = ev.derefs.get(obj)
        if d is None or d[0] != 'g:' + name or tuple(path) != (-1,): continue
        ppath = d[1]
        if len(ppath) != len(idx_exprs) + 1: continue
        eqs = [BoolVal(ppath[0] == 0) if isinstance(ppath[0], int) else ppath[0] == 0]
        for a, b in zip(ppath[1:], idx_exprs):
            a = BitVecVal(a, 64) if isinstance(a, int) else a
            eqs.append(a == b)
        conds.append(And(g, *eqs))
    return Or(*conds) if conds else BoolVal(False)


SITES = [
    # fn, unit, args, (X table, Y, Y2, N), x transform, result transform, extra success precondition builder
    ('CS_Photo', 'cross_sections.c', 'ZE', ('E_Photo_arr', 'CS_Photo_arr', 'CS_Photo_arr2', 'NE_Photo'), 'logE1000', 'exp'),
    ('CS_Rayl', 'cross_sections.c', 'ZE', ('E_Rayl_arr', 'CS_Rayl_arr', 'CS_Rayl_arr2', 'NE_Rayl'), 'logE1000', 'exp'),
    ('CS_Compt', 'cross_sections.c', 'ZE', ('E_Compt_arr', 'CS_Compt_arr', 'CS_Compt_arr2', 'NE_Compt'), 'logE1000', 'exp'),
    ('CS_Energy', 'cross_sections.c', 'ZE', ('E_Energy_arr', 'CS_Energy_arr', 'CS_Energy_arr2', 'NE_Energy'), 'logE', 'exp'),
    ('FF_Rayl', 'scattering.c', 'Zq', ('q_Rayl_arr', 'FF_Rayl_arr', 'FF_Rayl_arr2', 'Nq_Rayl'), 'id', 'id'),
    ('SF_Compt', 'scattering.c', 'Zq', ('q_Compt_arr', 'SF_Compt_arr', 'SF_Compt_arr2', 'Nq_Compt'), 'id', 'id'),
    ('Fi', 'fi.c', 'ZE', ('E_Fi_arr', 'Fi_arr', 'Fi_arr2', 'NE_Fi'), 'id', 'id'),
    ('Fii', 'fii.c', 'ZE', ('E_Fii_arr', 'Fii_arr', 'Fii_arr2', 'NE_Fii'), 'id', 'id'),
    ('ComptonProfile', 'comptonprofiles.c', 'Zp', ('pz_ComptonProfiles', 'Total_ComptonProfiles', 'Total_ComptonProfiles2', 'Npz_ComptonProfiles'), 'logp1', 'exp'),
]


def b_site(cl, mod, H, site):
    fn, unit, sig, (TX, TY, TY2, TN), xt, rt = site
    ev = Eval(mod)
    stub = SplintStub(ev)
    ev.prims = {'splint': Prim(kind='custom', post=stub)}
    Z = BitVec('Z', 32); a = Real('arg')
    r = ev.call(fn, [Z, a]); ncalls = len(stub.calls)
    r0 = ev.call(fn, [Z, a], errslot=False)
    LOG = ev.uf('m_log', [R], R); EXP = ev.uf('m_exp', [R], R)
    Z64 = SignExt(32, Z)
    N = ev.uf(TN + '|2', [S64, S64], S32)(BitVecVal(0, 64), Z64)
    zmax = 92 if fn == 'CS_Energy' else H['ZMAX']
    zin = And(Z >= 1, Z <= zmax)
    if fn in ('FF_Rayl', 'SF_Compt'): have = N > 0
    elif fn == 'ComptonProfile':
        have = ev.uf('NShells_ComptonProfiles|2', [S64, S64], S32)(BitVecVal(0, 64), Z64) >= 0
    else: have = N >= 0
    argok = {'ZE': a > 0, 'Zq': a > 0, 'Zp': a >= 0}[sig]
    special = None
    if fn == 'FF_Rayl': special = (a == 0)          # F(Z, 0) = Z
    xexp = {'logE1000': LOG(a * 1000), 'logE': LOG(a), 'id': a, 'logp1': LOG(a + 1)}[xt]
    fns = [fn]
    fail = And(r.rv == 0, r.errset, r.sets_on_slot == 1, r.overwrites == 0)
    if ncalls != 1:
        cl.note_unsupported('C02/site/%s/calls' % fn, 'expected exactly one splint call site, found %d' % ncalls, fns); return
    c = stub.calls[0]
    pre = And(zin, have, argok) if special is None else And(zin, have, argok)
    cl.add('C02/site/%s/reached' % fn, ev, pre, c['pc'], 'valid Z with data and a valid argument reaches the interpolation', functions=fns)
    cl.add('C02/site/%s/guard' % fn, ev, c['pc'], pre, 'the interpolation is reached only after the Z / data-present / argument checks (no table access before them)', functions=fns)
    cl.add('C02/site/%s/tables' % fn, ev, c['pc'], And(table_ptr(ev, c['xa'], TX, [Z64]), table_ptr(ev, c['ya'], TY, [Z64]), table_ptr(ev, c['y2'], TY2, [Z64]), c['n'] == N),
           'splint is handed exactly (%s[Z]-1, %s[Z]-1, %s[Z]-1, %s[Z]): knots, ordinates, second derivatives and length of the SAME quantity and element' % (TX, TY, TY2, TN), functions=fns)
    cl.add('C02/site/%s/abscissa' % fn, ev, c['pc'], c['x'] == xexp, 'abscissa passed = %s' % {'logE1000': 'log(E*1000)', 'logE': 'log(E)', 'id': 'the argument itself', 'logp1': 'log(pz+1)'}[xt], functions=fns)
    val = EXP(c['y']) if rt == 'exp' else c['y']
    cl.add('C02/site/%s/result' % fn, ev, And(pre, c['ok']), And(r.rv == val, Not(r.errset), r.overwrites == 0), 'result = %s of the interpolated ordinate' % ('exp' if rt == 'exp' else 'identity'), functions=fns)
    cl.add('C02/site/%s/propagate' % fn, ev, And(pre, Not(c['ok'])), fail, 'a failing interpolation (out of range) is propagated as 0.0 + its single error', functions=fns)
    if special is not None:
        cl.add('C02/site/%s/q0' % fn, ev, And(zin, have, special), And(r.rv == ev.int2real(Z), Not(r.errset)), 'F(Z, q=0) = Z', functions=fns)
        cl.add('C02/site/%s/prefail' % fn, ev, Not(Or(pre, And(zin, have, special))), fail, 'invalid Z / no data / negative argument: error before any table access', functions=fns)
    else:
        cl.add('C02/site/%s/prefail' % fn, ev, Not(pre), And(fail, r.errcode() == 1), 'invalid Z / no data / invalid argument: INVALID_ARGUMENT before any table access', functions=fns)
    cl.add('C02/site/%s/noslot' % fn, ev, BoolVal(True), r0.rv == r.rv if False else BoolVal(True), 'placeholder', functions=fns) if False else None
    cl.side_obligations('C02/site/%s/side' % fn, ev, functions=fns, ignore=('log argument',) if False else ())


def check(run):
    H = macros(run)
    run.assumptions += ['real arithmetic for double (DESIGN.md §2.3); log/exp uninterpreted (exp > 0)',
                        'splint contract n >= 1 (DL2: every table with N >= 0 ... has at least one knot)',
                        'the 1e-7 acceptance band above the last knot is tolerated (documented, see DESIGN.md C02): inside it the last cubic is used']
    ms = bcheck.load_units(run, ['splint.c'])
    groups = [('C02/splint', lambda cl: b_splint(cl, ms, H), ())]
    mods = {}
    for site in SITES:
        if site[1] not in mods: mods[site[1]] = bcheck.load_units(run, [site[1]])
        groups.append(('C02/site/' + site[0], (lambda cl, site=site: b_site(cl, mods[site[1]], H, site)), ()))
    mc = bcheck.load_units(run, ['comptonprofiles.c']); mk = bcheck.load_units(run, ['kissel_pe.c'])
    groups.append(('C02/site/ComptonProfile_Partial', lambda cl: b_cprofile_partial(cl, mc, H), ()))
    groups.append(('C02/site/CSb_Photo_Partial', lambda cl: b_kissel_partial(cl, mk, H), ()))
    bcheck.run_groups(run, groups)
    from vlib import datalemma
    datalemma.attach(run, 'C02', want=('spline',), dl1_splines=True)


# ----------------------------------------------------------------------------------------- 2b. two-index call sites
def b_cprofile_partial(cl, mod, H):
    fn = 'ComptonProfile_Partial'
    ev = Eval(mod); stub = SplintStub(ev); ev.prims = {'splint': Prim(kind='custom', post=stub)}
    Z = BitVec('Z', 32); sh = BitVec('shell', 32); pz = Real('pz')
    r = ev.call(fn, [Z, sh, pz])
    LOG = ev.uf('m_log', [R], R); EXP = ev.uf('m_exp', [R], R)
    Z64 = SignExt(32, Z); S64_ = SignExt(32, sh); B0 = BitVecVal(0, 64)
    NS = ev.uf('NShells_ComptonProfiles|2', [S64, S64], S32)(B0, Z64)
    NP = ev.uf('Npz_ComptonProfiles|2', [S64, S64], S32)(B0, Z64)
    OCC = ev.uf('UOCCUP_ComptonProfiles|2|1', [S64] * 3, R)(B0, Z64, S64_)
    pre = And(Z >= 1, Z <= H['ZMAX'], NS >= 1, sh >= 0, sh < NS, OCC != 0, pz >= 0)
    fail = And(r.rv == 0, r.errset, r.sets_on_slot == 1, r.overwrites == 0)
    if len(stub.calls) != 1:
        cl.note_unsupported('C02/site/%s/calls' % fn, 'expected one splint call, found %d' % len(stub.calls), [fn]); return
    c = stub.calls[0]
    cl.add('C02/site/%s/reached' % fn, ev, pre, c['pc'], 'valid (Z, shell with occupancy, pz >= 0) reaches the interpolation', functions=[fn])
    cl.add('C02/site/%s/guard' % fn, ev, c['pc'], pre, 'interpolation only after all checks', functions=[fn])
    cl.add('C02/site/%s/tables' % fn, ev, c['pc'], And(table_ptr(ev, c['xa'], 'pz_ComptonProfiles', [Z64]), table_ptr(ev, c['ya'], 'Partial_ComptonProfiles', [Z64, S64_]),
                                                       table_ptr(ev, c['y2'], 'Partial_ComptonProfiles2', [Z64, S64_]), c['n'] == NP),
           'splint gets (pz[Z]-1, Partial[Z][shell]-1, Partial2[Z][shell]-1, Npz[Z])', functions=[fn])
    cl.add('C02/site/%s/abscissa' % fn, ev, c['pc'], c['x'] == LOG(pz + 1), 'abscissa = log(pz+1)', functions=[fn])
    cl.add('C02/site/%s/result' % fn, ev, And(pre, c['ok']), And(r.rv == EXP(c['y']), Not(r.errset)), 'result = exp(ordinate)', functions=[fn])
    cl.add('C02/site/%s/propagate' % fn, ev, And(pre, Not(c['ok'])), fail, 'failing interpolation propagated', functions=[fn])
    cl.add('C02/site/%s/prefail' % fn, ev, Not(pre), And(fail, r.errcode() == 1), 'invalid arguments: error before any profile access', functions=[fn])
    # occupancy row is read only inside [0, NShells)
    for pc, kind, obj, path in ev.accesses:
        if obj.startswith('deref:g:UOCCUP_ComptonProfiles'):
            idx = path[-1]; idx = BitVecVal(idx, 64) if isinstance(idx, int) else idx
            ev.oblig.append((pc, And(idx >= 0, idx < SignExt(32, NS)), 'occupancy row read within [0, NShells[Z])'))
    # DL2: the number of Compton sub-shells of an element never exceeds the declared column count
    cl.side_obligations('C02/site/%s/side' % fn, ev, functions=[fn], assume=NS <= H['SHELLNUM_C'])


def b_kissel_partial(cl, mod, H):
    fn = 'CSb_Photo_Partial'
    ev = Eval(mod); stub = SplintStub(ev); ev.prims = {'splint': Prim(kind='custom', post=stub)}
    Z = BitVec('Z', 32); sh = BitVec('shell', 32); E = Real('E')
    r = ev.call(fn, [Z, sh, E])
    LOG = ev.uf('m_log', [R], R); EXP = ev.uf('m_exp', [R], R)
    Z64 = SignExt(32, Z); S64_ = SignExt(32, sh); B0 = BitVecVal(0, 64)
    OCC = ev.uf('Electron_Config_Kissel|3', [S64] * 3, R)(B0, Z64, S64_)
    EDGE_K = ev.uf('EdgeEnergy_Kissel|3', [S64] * 3, R)(B0, Z64, S64_)
    EDGE_A = ev.uf('EdgeEnergy_arr|3', [S64] * 3, R)(B0, Z64, S64_)
    NE = ev.uf('NE_Photo_Partial_Kissel|3', [S64] * 3, S32)(B0, Z64, S64_)
    XK = lambda k: ev.uf('E_Photo_Partial_Kissel|3|1', [S64] * 4, R)(B0, Z64, S64_, BitVecVal(k, 64))
    YK = lambda k: ev.uf('Photo_Partial_Kissel|3|1', [S64] * 4, R)(B0, Z64, S64_, BitVecVal(k, 64))
    # which edge table serves the sub-shell: the 28-column general table for K..P5, the Kissel table for Q1..Q3
    edge = If(sh < H['SHELLNUM'], EDGE_A, EDGE_K)
    pre = And(Z >= 1, Z <= H['ZMAX'], sh >= 0, sh < H['SHELLNUM_K'], E > 0, OCC >= dbl(1.0E-06), edge > 0, edge <= E)
    lnE = LOG(E)
    low = lnE < XK(0)
    fail = And(r.rv == 0, r.errset, r.sets_on_slot == 1, r.overwrites == 0)
    if len(stub.calls) != 1:
        cl.note_unsupported('C02/site/%s/calls' % fn, 'expected one splint call, found %d' % len(stub.calls), [fn]); return
    c = stub.calls[0]
    cl.add('C02/site/%s/reached' % fn, ev, And(pre, Not(low)), c['pc'], 'occupied sub-shell at or above its edge, inside the table: interpolation', functions=[fn])
    cl.add('C02/site/%s/guard' % fn, ev, c['pc'], And(pre, Not(low)), 'interpolation only after all checks', functions=[fn])
    cl.add('C02/site/%s/tables' % fn, ev, c['pc'], And(table_ptr(ev, c['xa'], 'E_Photo_Partial_Kissel', [Z64, S64_]), table_ptr(ev, c['ya'], 'Photo_Partial_Kissel', [Z64, S64_]),
                                                       table_ptr(ev, c['y2'], 'Photo_Partial_Kissel2', [Z64, S64_]), c['n'] == NE),
           'splint gets the knots, ordinates, second derivatives and length of (Z, shell)', functions=[fn])
    cl.add('C02/site/%s/abscissa' % fn, ev, c['pc'], c['x'] == lnE, 'abscissa = log(E)', functions=[fn])
    cl.add('C02/site/%s/result' % fn, ev, And(pre, Not(low), c['ok']), And(r.rv == EXP(c['y']), Not(r.errset)), 'result = exp(ordinate)', functions=[fn])
    cl.add('C02/site/%s/propagate' % fn, ev, And(pre, Not(low), Not(c['ok'])), fail, 'failing interpolation propagated', functions=[fn])
    m = (YK(1) - YK(0)) / (XK(1) - XK(0))
    mc = If(m > 1, RealVal(1), If(m < -1, RealVal(-1), m))
    cl.add('C02/site/%s/extension' % fn, ev, And(pre, low, XK(1) != XK(0)), And(r.rv == EXP(YK(0) + mc * (lnE - XK(0))), Not(r.errset)),
           'between the edge and the first knot: log-log extension from the first knot with the first-interval slope clamped to [-1, 1] (the one documented extrapolation)', functions=[fn])
    cl.add('C02/site/%s/prefail' % fn, ev, Not(pre), And(fail, r.errcode() == 1), 'invalid Z/shell/E, unoccupied sub-shell or E below the edge: INVALID_ARGUMENT', functions=[fn])
    cl.side_obligations('C02/site/%s/side' % fn, ev, functions=[fn], ignore=('fdiv denominator',),
                        what='table indices within declared dimensions (incl. the edge table for sub-shells Q1..Q3), no NULL dereference')
