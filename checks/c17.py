# C17 — concurrent queries from many threads are race-free and agree with serial results (DESIGN.md §C17)
# CBMC 6.11 refuses threaded programs with pointers and its race checker crashes on this code base (measured), so no interleaving is
# explored.  What is decided is the thread-modular sufficient condition: every query writes only caller-owned/fresh objects and reads
# only arguments and immutable tables (the same frame obligations as C16) => any two concurrent calls with their own error slots have
# disjoint write sets and read nothing the other writes, for any number of threads and any schedule.
from checks import frame, c16
LEVEL = 'other'

def check(run):
    run.assumptions += ['no schedule is enumerated and no race detector is run: the verdict is the frame condition + the reduction argument of DESIGN.md §2.5',
                        'malloc/free are thread-safe (libc contract); read-only tables are never written (C16)']
    mods = ['c01', 'c02', 'c05', 'c08', 'c06', 'c12'] + (['c09', 'c10', 'c11', 'c13'] if run.tier == 'thorough' else ['c10'])
    frame.sweep(run, 'C17', keep=lambda oid: oid.endswith('/side'), modules=mods)
    c16.scan(run, 'C17')
