# C09 — jump-ratio XRF cross sections = photo x jump share x yield x rate (DESIGN.md §C09)
import re, itertools, z3
from z3 import BitVec, BitVecVal, And, Or, Not, Implies, If, RealVal, BoolVal, Real
from vlib import bcheck
from vlib.headers import macros
from vlib.irsym import Eval, Prim

PRIMS = ['EdgeEnergy', 'JumpFactor', 'FluorYield', 'CosKronTransProb', 'CS_Photo', 'RadRate']
FNS = ['CS_FluorShell', 'CS_FluorLine', 'Jump_from_K', 'Jump_from_L1', 'Jump_from_L2', 'Jump_from_L3']


def setup(mod, H):
    ev = Eval(mod, prims={p: Prim() for p in PRIMS})
    Z = BitVec('Z', 32); E = Real('E')
    S32 = z3.BitVecSort(32); R = z3.RealSort()
    uf = lambda n, *s: ev.uf(n, list(s), R)
    EE = uf('EdgeEnergy', S32, S32); JF = uf('JumpFactor', S32, S32); FY = uf('FluorYield', S32, S32)
    CK = uf('CosKronTransProb', S32, S32); PH = uf('CS_Photo', S32, R); RR = uf('RadRate', S32, S32)
    B = lambda k: BitVecVal(k, 32)
    e = [EE(Z, B(k)) for k in range(4)]; J = [JF(Z, B(k)) for k in range(4)]; w = [FY(Z, B(k)) for k in range(4)]
    f12 = CK(Z, B(H['FL12_TRANS'])); f13 = CK(Z, B(H['FL13_TRANS'])) + CK(Z, B(H['FLP13_TRANS'])); f23 = CK(Z, B(H['FL23_TRANS']))
    a = [And(e[k] > 0, E > e[k]) for k in range(4)]
    # representation invariant of the shipped tables (DL2): present edges are physically ordered K >= L1 >= L2 >= L3 (L2 = L3 for light elements);
    # jump ratios are 0 (absent) or >= 1; all primitives are >= 0
    inv = And(*[Or(J[k] == 0, J[k] >= 1) for k in range(4)] +
              [Implies(And(e[i] > 0, e[j] > 0), e[i] >= e[j]) for i in range(4) for j in range(i + 1, 4)] +
              [x >= 0 for x in e + J + w + [f12, f23, CK(Z, B(H['FL13_TRANS'])), CK(Z, B(H['FLP13_TRANS']))]])
    kfac = If(a[0], 1 / J[0], RealVal(1))
    # tau_i: fraction of the (sub-K) absorption attributable to L_i at energy E
    t1 = If(a[1], (J[1] - 1) / J[1], RealVal(0))
    t2 = If(a[1], (J[2] - 1) / (J[2] * J[1]), If(a[2], (J[2] - 1) / J[2], RealVal(0)))
    t3 = If(a[1], (J[3] - 1) / (J[3] * J[2] * J[1]), If(a[2], (J[3] - 1) / (J[3] * J[2]), If(a[3], (J[3] - 1) / J[3], RealVal(0))))
    needK = Implies(a[0], J[0] > 0)
    share = [None] * 4; defined = [None] * 4
    share[0] = (J[0] - 1) / J[0] * w[0]
    defined[0] = And(a[0], J[0] > 0, w[0] > 0)
    share[1] = kfac * t1 * w[1]
    defined[1] = And(a[1], needK, J[1] > 0, w[1] > 0)
    share[2] = kfac * (t2 + t1 * f12) * w[2]
    defined[2] = And(Or(a[1], a[2]), needK, Implies(a[1], And(J[1] > 0, J[2] > 0)), Implies(And(Not(a[1]), a[2]), J[2] > 0),
                     Implies(t1 > 0, f12 > 0), w[2] > 0)
    share[3] = kfac * (t3 + t2 * f23 + t1 * (f13 + f12 * f23)) * w[3]
    defined[3] = And(Or(a[1], a[2], a[3]), needK, Implies(a[1], And(J[1] > 0, J[2] > 0, J[3] > 0)),
                     Implies(And(Not(a[1]), a[2]), And(J[2] > 0, J[3] > 0)), Implies(And(Not(a[1]), Not(a[2]), a[3]), J[3] > 0),
                     Implies(t2 > 0, f23 > 0), Implies(t1 > 0, And(f13 > 0, f12 > 0, f23 > 0)), w[3] > 0)
    return dict(ev=ev, Z=Z, E=E, e=e, J=J, w=w, a=a, inv=inv, share=share, defined=defined, PH=PH, RR=RR, B=B,
                avail=[J[0] > 0, J[1] > 0, J[2] > 0, J[3] > 0, f12 > 0, f13 > 0, f23 > 0])


def cases(preds):
    for bits in itertools.product([True, False], repeat=len(preds)):
        yield bits, [p if b else Not(p) for p, b in zip(preds, bits)]


def b_shell(cl, mod, H, k):
    c = setup(mod, H); ev = c['ev']; Z = c['Z']; E = c['E']
    shell = BitVec('shell', 32)
    r = ev.call('CS_FluorShell', [Z, shell, E])
    r0 = ev.call('CS_FluorShell', [Z, shell, E], errslot=False)
    base = And(c['inv'], Z >= 1, Z <= H['ZMAX'], shell == k)
    ok = And(r.rv == c['PH'](Z, E) * c['share'][k], Not(r.errset), r.overwrites == 0)
    fail = And(r.rv == 0, r.errset, r.sets_on_slot == 1, r.overwrites == 0)
    good = And(E > 0, c['defined'][k], c['share'][k] > 0, c['PH'](Z, E) > 0)
    name = ['K', 'L1', 'L2', 'L3'][k]
    # case split on the function's own branch predicates (edge tests) so that no If remains in the rational identity
    for bits, cs in cases(c['a']):
        tag = ''.join('1' if b else '0' for b in bits)
        cl.add('C09/shell/%s/value/%s' % (name, tag), ev, And(base, good, *cs), ok,
               'CS_FluorShell(%s) = CS_Photo x jump share x yield when E is above the sub-shell edge and all factors exist '
               '(edge pattern E>K,L1,L2,L3 = %s)' % (name, tag), functions=FNS, check_premise=False, splits=c['avail'])
        cl.add('C09/shell/%s/fail/%s' % (name, tag), ev, And(base, Not(good), *cs), fail,
               'otherwise 0.0 and exactly one error (edge pattern %s)' % tag, functions=FNS, check_premise=False)
    cl.add('C09/shell/%s/reach' % name, ev, And(base, good), BoolVal(True), 'premise of the value claims is satisfiable', functions=FNS)
    if k >= 1:
        j = ev.call('Jump_from_L%d' % k, [Z, E], errslot=False)
        js = ev.call('Jump_from_L%d' % k, [Z, E])
        gj = And(c['defined'][k], c['share'][k] > 0)
        for bits, cs in cases(c['a']):
            tag = ''.join('1' if b else '0' for b in bits)
            cl.add('C09/jump/L%d/%s' % (k, tag), ev, And(c['inv'], *cs), And(j.rv == If(gj, c['share'][k], 0), js.rv == j.rv, js.errset == (js.rv == 0)),
                   'static Jump_from_L%d(Z,E) = share x yield when defined, else 0 with an error (edge pattern %s)' % (k, tag), functions=FNS, check_premise=False, splits=c['avail'])
    if k == 0:
        cl.add('C09/shell/args', ev, And(c['inv'], Or(Z < 1, Z > H['ZMAX'], E <= 0, shell < 0, shell > 3)), fail,
               'Z, E or shell out of range: error', functions=FNS)
        cl.add('C09/shell/noslot', ev, c['inv'], r0.rv == r.rv, 'error==NULL returns the same value', functions=FNS)
        cl.side_obligations('C09/shell/side', ev, assume=c['inv'], functions=FNS)


def line_shell(H):
    """line macro value -> excited shell index, derived from the macro's NAME"""
    from vlib.headers import iupac_lines
    out = {}
    for n, v in iupac_lines(H).items():
        m = re.match(r'(K|L1|L2|L3)', n)
        if m: out[v] = ['K', 'L1', 'L2', 'L3'].index(m.group(1))
    out[H['KA_LINE']] = 0; out[H['KB_LINE']] = 0; out[H['LA_LINE']] = 3
    return out


def b_line(cl, mod, H):
    # CS_FluorShell and the static Jump_from_L* are primitives here (their own values are the C09/shell obligations)
    c = setup(mod, H); Z = c['Z']; E = c['E']
    ev = Eval(mod, prims={p: Prim() for p in PRIMS + ['CS_FluorShell', 'Jump_from_L1', 'Jump_from_L2', 'Jump_from_L3']})
    S32 = z3.BitVecSort(32); R = z3.RealSort()
    RR = ev.uf('RadRate', [S32, S32], R); SH = ev.uf('CS_FluorShell', [S32, S32, R], R); PH = ev.uf('CS_Photo', [S32, R], R)
    JL = [None] + [ev.uf('Jump_from_L%d' % k, [S32, R], R) for k in (1, 2, 3)]
    line = BitVec('line', 32)
    r = ev.call('CS_FluorLine', [Z, line, E])
    r0 = ev.call('CS_FluorLine', [Z, line, E], errslot=False)
    ls = line_shell(H)
    fail = And(r.rv == 0, r.errset, r.sets_on_slot == 1, r.overwrites == 0)
    for k in range(4):
        name = ['K', 'L1', 'L2', 'L3'][k]
        members = sorted(v for v, s in ls.items() if s == k)
        inset = Or(*[line == v for v in members])
        sh = SH(Z, BitVecVal(k, 32), E); rr = RR(Z, line)
        cl.add('C09/line/%s/value' % name, ev, And(inset, rr > 0, sh > 0), And(r.rv == rr * sh, Not(r.errset), r.overwrites == 0),
               'every %s line macro (%d values, shell read off the macro NAME): CS_FluorLine = RadRate x CS_FluorShell(%s)' % (name, len(members), name), functions=FNS)
        cl.add('C09/line/%s/fail' % name, ev, And(inset, Not(And(rr > 0, sh > 0))), fail,
               '%s line without rate or without shell cross section: 0.0 and one error' % name, functions=FNS)
    known = sorted(ls) + [H['LB_LINE']]
    cl.add('C09/line/other', ev, And(*[line != v for v in known]), And(fail, r.errcode() == 1), 'any other int is an INVALID_ARGUMENT error', functions=FNS)
    # LB group = sum over its documented member lines (LB5 = L3O45, recorded in radrate.dat as L3O4 / L3O5 / L3O45)
    mem = {1: ['L1M3', 'L1M2', 'L1M5', 'L1M4'], 2: ['L2M4', 'L2M3'], 3: ['L3N5', 'L3O4', 'L3O5', 'L3O45', 'L3N1', 'L3O1', 'L3N6', 'L3N7', 'L3N4']}
    tot = RealVal(0)
    for k, names in mem.items():
        tot = tot + JL[k](Z, E) * sum([RR(Z, BitVecVal(H[n + '_LINE'], 32)) for n in names], RealVal(0))
    ph = PH(Z, E); pre = line == H['LB_LINE']
    cl.add('C09/line/LB/value', ev, And(pre, tot > 0, ph > 0), And(r.rv == ph * tot, Not(r.errset), r.overwrites == 0),
           'LB = CS_Photo x sum over the member lines of share(shell_i) x RadRate(line_i)', functions=FNS)
    cl.add('C09/line/LB/fail', ev, And(pre, Not(And(tot > 0, ph > 0))), fail, 'LB undefined: 0.0 and one error', functions=FNS)
    cl.add('C09/line/noslot', ev, BoolVal(True), r0.rv == r.rv, 'error==NULL returns the same value', functions=FNS)
    cl.side_obligations('C09/line/side', ev, functions=FNS)


def check(run):
    H = macros(run)
    mod = bcheck.load_units(run, ['cs_line.c'])
    run.assumptions += ['real arithmetic for double (DESIGN.md §2.3)',
                        'primitives EdgeEnergy/JumpFactor/FluorYield/CosKronTransProb/CS_Photo/RadRate are uninterpreted, >= 0, and report an error iff they return 0 (their own contracts are C01/C02)',
                        'DL2: present edges ordered K >= L1 >= L2 >= L3; jump ratios are 0 or >= 1']
    groups = [('C09/shell/%d' % k, (lambda cl, k=k: b_shell(cl, mod, H, k)), ()) for k in range(4)]
    groups.append(('C09/line', (lambda cl: b_line(cl, mod, H)), ()))
    bcheck.run_groups(run, groups)
    from vlib import datalemma
    datalemma.attach(run, 'C09', want=('jump',))
