# C08 — Kissel XRF cross sections equal the cascade model built from the primitives (DESIGN.md §C08)
import re, z3
from z3 import BitVec, BitVecVal, SignExt, And, Or, Not, Implies, If, RealVal, BoolVal, Real
from vlib import bcheck
from vlib.headers import macros, iupac_lines
from vlib.irsym import Eval, Prim, dbl

S32 = z3.BitVecSort(32); S64 = z3.BitVecSort(64); R = z3.RealSort()
SHELLS = ['K', 'L1', 'L2', 'L3', 'M1', 'M2', 'M3', 'M4', 'M5']
VARIANTS = {'pure': 'no_Cascade', 'rad': 'Radiative_Cascade', 'auger': 'Nonradiative_Cascade', 'full': 'Cascade'}


def ck_terms(H, tgt):
    """[(source sub-shell, [CK macro names])] feeding tgt from lower sub-shells of the same principal shell"""
    out = []
    for s in SHELLS:
        if s[0] != tgt[0] or s == 'K' or int(s[1]) >= int(tgt[1]): continue
        a, b = s[1], tgt[1]
        if tgt[0] == 'L': names = ['FL%s%s' % (a, b)] + (['FLP13'] if (a, b) == ('1', '3') else [])
        else: names = ['FM%s%s' % (a, b)]
        out.append((s, names))
    return out


def inner_shells(tgt):
    return ['K'] if tgt[0] == 'L' else ['K', 'L1', 'L2', 'L3']


def pargs(tgt, variant):
    """names of the vacancy-production parameters of P<tgt>_<variant>"""
    same = [s for s in SHELLS if s[0] == tgt[0] and s != 'K' and int(s[1]) < int(tgt[1])]
    return same if variant == 'pure' else inner_shells(tgt) + same


def pname(tgt, variant):
    return 'P%s_%s_kissel' % (tgt, 'pure' if variant == 'pure' else variant + '_cascade')


def b_aux(cl, mod, H, tgt):
    """run-time recursion step: P_tgt^variant = tau_tgt + feeding terms"""
    valid = lambda ev: []
    for variant in VARIANTS:
        fn = pname(tgt, variant)
        post = lambda ev, vals, r: [Implies(r > 0, And(vals[0] >= 1, vals[0] <= H['ZMAX']))]
        ev = Eval(mod, prims={'CS_Photo_Partial': Prim(post=post), 'FluorYield': Prim(), 'RadRate': Prim(), 'CosKronTransProb': Prim()})
        Z = BitVec('Z', 32); E = Real('E')
        P = {s: Real('P' + s) for s in pargs(tgt, variant)}
        args = [Z, E] + [P[s] for s in pargs(tgt, variant)]
        r = ev.call(fn, args)
        B = lambda v: BitVecVal(v, 32)
        tau = ev.uf('CS_Photo_Partial', [S32, S32, R], R)(Z, B(H[tgt + '_SHELL']), E)
        FY = lambda s: ev.uf('FluorYield', [S32, S32], R)(Z, B(H[s + '_SHELL']))
        RR = lambda l: ev.uf('RadRate', [S32, S32], R)(Z, B(H[l + '_LINE']))
        CK = lambda t: ev.uf('CosKronTransProb', [S32, S32], R)(Z, B(H[t + '_TRANS']))
        CST = lambda tab, s: ev.uf(tab + '|4', [S64] * 4, R)(BitVecVal(0, 64), SignExt(32, Z), BitVecVal(H[tgt + '_SHELL'], 64), BitVecVal(H[s + '_SHELL'], 64))
        ref = tau
        if variant != 'pure':
            for s in inner_shells(tgt):
                if variant == 'rad': t = FY(s) * P[s] * RR(s + tgt)
                elif variant == 'auger': t = P[s] * CST('xrf_cross_sections_constants_auger_only', s)
                else: t = P[s] * CST('xrf_cross_sections_constants_full', s)
                ref = ref + If(P[s] > 0, t, 0)
        for s, names in ck_terms(H, tgt):
            ref = ref + If(P[s] > 0, sum([CK(n) for n in names], RealVal(0)) * P[s], 0)
        cl.add('C08/aux/%s/value' % fn, ev, tau > 0, And(r.rv == ref, Not(r.errset), r.overwrites == 0),
               '%s = partial photo-ionisation of %s + %s feeding terms (each only when the source vacancy production is > 0)' %
               (fn, tgt, {'pure': 'Coster-Kronig', 'rad': 'radiative (yield x rate) + Coster-Kronig', 'auger': 'Auger-constant + Coster-Kronig',
                          'full': 'full-constant + Coster-Kronig'}[variant]), functions=[fn])
        cl.add('C08/aux/%s/fail' % fn, ev, Not(tau > 0), And(r.rv == 0, r.errset, r.sets_on_slot == 1, r.overwrites == 0),
               '%s fails (0.0 + one error) iff the sub-shell itself cannot be ionised at E' % fn, functions=[fn])
        cl.side_obligations('C08/aux/%s/side' % fn, ev, functions=[fn])


def chain(ev, H, variant, tgt, Z, E):
    """reference vacancy production of tgt: the P functions (uninterpreted here) composed in the documented order, same variant"""
    B = lambda v: BitVecVal(v, 32)
    PK = ev.uf('CS_Photo_Partial', [S32, S32, R], R)(Z, B(H['K_SHELL']), E)
    val = {'K': PK}
    for s in SHELLS[1:]:
        names = pargs(s, variant)
        a = [Z, E] + [val[n] for n in names]
        val[s] = ev.uf(pname(s, variant), [x.sort() for x in a], R)(*a)
        if s == tgt: break
    return val[tgt]


def b_shell(cl, mod, H, variant):
    prims = {'CS_Photo_Partial': Prim(), 'FluorYield': Prim()}
    for s in SHELLS[1:]:
        for v in VARIANTS: prims[pname(s, v)] = Prim()
    ev = Eval(mod, prims=prims)
    Z = BitVec('Z', 32); E = Real('E'); shell = BitVec('shell', 32)
    fn = 'CS_FluorShell_Kissel_' + VARIANTS[variant]
    r = ev.call(fn, [Z, shell, E]); r0 = ev.call(fn, [Z, shell, E], errslot=False)
    zin = And(Z >= 1, Z <= H['ZMAX'], E > 0)
    fail = And(r.rv == 0, r.errset, r.sets_on_slot == 1, r.overwrites == 0)
    for s in SHELLS:
        w = ev.uf('FluorYield', [S32, S32], R)(Z, BitVecVal(H[s + '_SHELL'], 32))
        p = chain(ev, H, variant, s, Z, E)
        pre = And(zin, shell == H[s + '_SHELL'])
        cl.add('C08/shell/%s/%s/value' % (variant, s), ev, And(pre, w > 0, p > 0), And(r.rv == w * p, Not(r.errset), r.overwrites == 0),
               '%s(%s) = fluorescence yield x vacancy production, the latter by the chain PK -> PL1 -> ... -> P%s of the %s variant throughout' %
               (fn, s, s, variant), functions=[fn])
        cl.add('C08/shell/%s/%s/fail' % (variant, s), ev, And(pre, Not(And(w > 0, p > 0))), fail, 'no yield or no vacancy production: 0.0 + one error', functions=[fn])
    cl.add('C08/shell/%s/args' % variant, ev, Or(Not(zin), shell < H['K_SHELL'], shell > H['M5_SHELL']), And(fail, r.errcode() == 1),
           'invalid Z, E or shell: INVALID_ARGUMENT', functions=[fn])
    cl.add('C08/shell/%s/noslot' % variant, ev, BoolVal(True), r0.rv == r.rv, 'error==NULL: same value', functions=[fn])
    if variant == 'full':
        a = ev.call('CS_FluorShell_Kissel', [Z, shell, E])
        cl.add('C08/shell/alias', ev, BoolVal(True), And(a.rv == r.rv, a.errset == r.errset), 'un-suffixed CS_FluorShell_Kissel = full cascade', functions=['CS_FluorShell_Kissel'])
    if variant != 'pure':
        base = ev.call('CS_FluorShell_Kissel_no_Cascade', [Z, shell, E])
        cl.add('C08/shell/%s/Kcoincide' % variant, ev, shell == H['K_SHELL'], And(base.rv == r.rv, base.errset == r.errset),
               'all variants coincide for the K shell', functions=[fn])
    cl.side_obligations('C08/shell/%s/side' % variant, ev, functions=[fn])


def line_shell(H):
    out = {}
    for n, v in iupac_lines(H).items():
        m = re.match(r'(K|L1|L2|L3|M1|M2|M3|M4|M5)', n)
        if not m: continue
        s = m.group(1)
        # intra-M transitions (M1M2 .. M4M5) are not fluorescence lines of the M sub-shells in this API
        if s[0] == 'M' and re.fullmatch(r'M\dM\d', n): continue
        out[v] = s
    return out


def b_line(cl, mod, H, variant):
    fnl = 'CS_FluorLine_Kissel_' + VARIANTS[variant]; fns = 'CS_FluorShell_Kissel_' + VARIANTS[variant]
    ev = Eval(mod, prims={'RadRate': Prim(), fns: Prim()})
    Z = BitVec('Z', 32); E = Real('E'); line = BitVec('line', 32)
    r = ev.call(fnl, [Z, line, E]); r0 = ev.call(fnl, [Z, line, E], errslot=False)
    RR = ev.uf('RadRate', [S32, S32], R); SH = ev.uf(fns, [S32, S32, R], R)
    zin = And(Z >= 1, Z <= H['ZMAX'], E > 0)
    fail = And(r.rv == 0, r.errset, r.sets_on_slot == 1, r.overwrites == 0)
    ls = line_shell(H); ls[H['KA_LINE']] = 'K'; ls[H['KB_LINE']] = 'K'; ls[H['LA_LINE']] = 'L3'
    for s in SHELLS:
        members = sorted(v for v, x in ls.items() if x == s)
        inset = Or(*[line == v for v in members])
        sh = SH(Z, BitVecVal(H[s + '_SHELL'], 32), E); rr = RR(Z, line)
        cl.add('C08/line/%s/%s/value' % (variant, s), ev, And(zin, inset, rr > 0, sh > 0), And(r.rv == sh * rr, Not(r.errset), r.overwrites == 0),
               '%s: every %s line macro (%d values, shell read off the NAME) = shell value x RadRate' % (fnl, s, len(members)), functions=[fnl])
        cl.add('C08/line/%s/%s/fail' % (variant, s), ev, And(zin, inset, Not(And(rr > 0, sh > 0))), fail, 'no rate or no shell value: 0.0 + one error', functions=[fnl])
    lbm = ['LB1', 'LB2', 'LB3', 'LB4', 'LB5', 'LB6', 'LB7', 'LB9', 'LB10', 'LB15', 'LB17', 'L3N6', 'L3N7']
    tot = RealVal(0)
    for n in lbm:
        v = H[n + '_LINE']; s = ls[v]
        sh = SH(Z, BitVecVal(H[s + '_SHELL'], 32), E); rr = RR(Z, BitVecVal(v, 32))
        tot = tot + If(And(rr > 0, sh > 0), sh * rr, 0)
    pre = And(zin, line == H['LB_LINE'])
    cl.add('C08/line/%s/LB/value' % variant, ev, And(pre, tot > 0), And(r.rv == tot, Not(r.errset), r.overwrites == 0),
           'LB = sum over its 13 documented member lines (members that are undefined contribute 0)', functions=[fnl], timeout=120)
    cl.add('C08/line/%s/LB/fail' % variant, ev, And(pre, Not(tot > 0)), fail, 'LB: no member defined: 0.0 + one error', functions=[fnl])
    known = sorted(ls) + [H['LB_LINE']]
    cl.add('C08/line/%s/other' % variant, ev, Or(Not(zin), And(*[line != v for v in known])), And(fail, r.errcode() == 1), 'any other line value, or invalid Z/E: INVALID_ARGUMENT', functions=[fnl])
    cl.add('C08/line/%s/noslot' % variant, ev, BoolVal(True), r0.rv == r.rv, 'error==NULL: same value', functions=[fnl])
    if variant == 'full':
        a = ev.call('CS_FluorLine_Kissel', [Z, line, E])
        cl.add('C08/line/alias', ev, BoolVal(True), And(a.rv == r.rv, a.errset == r.errset), 'un-suffixed CS_FluorLine_Kissel = full cascade', functions=['CS_FluorLine_Kissel'])
    cl.side_obligations('C08/line/%s/side' % variant, ev, functions=[fnl])


def b_barn(cl, mod, H):
    AV = dbl(H['AVOGNUM'])
    for kind in ('Line', 'Shell'):
        for v in list(VARIANTS.values()):
            fn = 'CSb_Fluor%s_Kissel_%s' % (kind, v); tw = 'CS_Fluor%s_Kissel_%s' % (kind, v)
            ev = Eval(mod, prims={tw: Prim()})
            Z = BitVec('Z', 32); E = Real('E'); m = BitVec('m', 32)
            r = ev.call(fn, [Z, m, E])
            cs = ev.uf(tw, [S32, S32, R], R)(Z, m, E)
            aw = ev.uf('AtomicWeight_arr|2', [S64, S64], R)(BitVecVal(0, 64), SignExt(32, Z))
            dl = Implies(cs > 0, And(Z >= 1, Z <= H['ZMAX'], aw > 0))
            cl.add('C08/barn/%s/value' % fn, ev, And(dl, cs > 0), And(r.rv == cs * aw / AV, Not(r.errset)), '%s = %s x A / N_A' % (fn, tw), functions=[fn])
            cl.add('C08/barn/%s/fail' % fn, ev, And(dl, Not(cs > 0)), And(r.rv == 0, r.errset, r.overwrites == 0), 'twin undefined: 0.0 + its error', functions=[fn])
            cl.side_obligations('C08/barn/%s/side' % fn, ev, assume=dl, functions=[fn])


def auger_macros(H):
    out = []
    for k, v in H.items():
        m = re.fullmatch(r'(K|L\d|M\d)_([LMNOPQ]\d)([LMNOPQ]\d)_AUGER', k)
        if m and isinstance(v, int): out.append((v, m.group(1), m.group(2), m.group(3)))
    return sorted(out)


def b_const(cl, mod, H, tgt):
    """build-time constants: P<tgt>_get_cross_sections_constant_{full,auger_only}(Z, source)"""
    AM = auger_macros(H)
    for kind in ('auger_only', 'full'):
        fn = 'P%s_get_cross_sections_constant_%s' % (tgt, kind)
        ev = Eval(mod, prims={'AugerRate': Prim(), 'AugerYield': Prim(), 'FluorYield': Prim(), 'RadRate': Prim()})
        Z = BitVec('Z', 32); src = BitVec('source', 32)
        r = ev.run(fn, [Z, src])[0]
        AR = ev.uf('AugerRate', [S32, S32], R); AY = ev.uf('AugerYield', [S32, S32], R)
        FY = ev.uf('FluorYield', [S32, S32], R); RRf = ev.uf('RadRate', [S32, S32], R)
        for s in inner_shells(tgt):
            tot = RealVal(0); n = 0
            for v, s0, x, y in AM:
                c = (1 if x == tgt else 0) + (1 if y == tgt else 0)
                # Coster-Kronig-type transitions (a hole in the source's own principal shell) carry no Auger rate (C11):
                # their transfer is the Coster-Kronig feeding term, not part of the Auger sum
                if x[0] == s0[0] or y[0] == s0[0]: continue
                if s0 == s and c:
                    tot = tot + c * AR(Z, BitVecVal(v, 32)); n += 1
            ref = AY(Z, BitVecVal(H[s + '_SHELL'], 32)) * tot
            if kind == 'full':
                ref = FY(Z, BitVecVal(H[s + '_SHELL'], 32)) * RRf(Z, BitVecVal(H[s + tgt + '_LINE'], 32)) + ref
            cl.add('C08/const/%s/%s' % (fn, s), ev, src == H[s + '_SHELL'], r == ref,
                   '%s(Z, %s) = %sAugerYield(%s) x sum over the %d Auger transitions %s-XY that leave a hole in %s (double holes counted twice; '
                   'membership read off the macro NAMES)' % (fn, s, 'FluorYield x RadRate(%s%s) + ' % (s, tgt) if kind == 'full' else '', s, n, s, tgt),
                   functions=[fn], timeout=120)
        cl.add('C08/const/%s/other' % fn, ev, And(*[src != H[s + '_SHELL'] for s in inner_shells(tgt)]), r == 0,
               '%s: no transfer from any other source shell' % fn, functions=[fn])
        cl.side_obligations('C08/const/%s/side' % fn, ev, functions=[fn])


def check(run):
    H = macros(run)
    run.assumptions += ['real arithmetic for double (DESIGN.md §2.3)',
                        'primitives (CS_Photo_Partial, FluorYield, RadRate, CosKronTransProb, AugerRate, AugerYield) uninterpreted, >= 0, error iff 0; '
                        'CS_Photo_Partial > 0 only for 1 <= Z <= ZMAX (its own check)',
                        'holds for every table content, hence for the emptied Kissel table (all partial cross sections 0 => every call fails cleanly) and a regenerated one']
    maux = bcheck.load_units(run, ['xrf_cross_sections_aux.c'])
    mk = bcheck.load_units(run, ['kissel_pe.c'])
    mp = bcheck.load_units(run, ['xrf_cross_sections_aux-private.c'])
    groups = []
    for t in SHELLS[1:]:
        groups.append(('C08/aux/' + t, (lambda cl, t=t: b_aux(cl, maux, H, t)), ()))
        groups.append(('C08/const/' + t, (lambda cl, t=t: b_const(cl, mp, H, t)), ()))
    for v in VARIANTS:
        groups.append(('C08/shell/' + v, (lambda cl, v=v: b_shell(cl, mk, H, v)), ()))
        groups.append(('C08/line/' + v, (lambda cl, v=v: b_line(cl, mk, H, v)), ()))
    groups.append(('C08/barn', (lambda cl: b_barn(cl, mk, H)), ()))
    bcheck.run_groups(run, groups)
