# C04 — no call sequence corrupts, over-reads or leaks memory (DESIGN.md §C04)
# (1) Engine B side obligations of every encoded function: every table index inside the declared dimensions, no NULL dereference,
#     local arrays in bounds, signed-overflow freedom, reads of per-element rows inside [0,N) / [1,n];
# (2) Engine A harnesses with CBMC's pointer/bounds checks and --memory-leak-check for everything that allocates: crystal collections
#     (one inductive step per operation), NIST / radionuclide lookups, element symbols, the error module;
# (3) histories: by the frame argument (C16) a finished call retains nothing, so sequences add nothing for the non-container API;
#     for crystal collections the inductive step covers histories.
from checks import frame

def check(run):
    run.assumptions += ['allocation never fails', 'formula scanner: one nesting level per string shape up to the C07 bounds (CBMC pointer/bounds/double-free/leak checks); Crystal_ReadFile: stream model, files enumerated by line kinds (C14 bounds)']
    mods = ['c01', 'c02', 'c05', 'c08', 'c06', 'c14', 'c15', 'c07'] + (['c09', 'c10', 'c11', 'c13'] if run.tier == 'thorough' else [])
    side = lambda oid: oid.endswith('/side') or '/acc/' in oid or '/step/' in oid or '/nist/' in oid or '/rn/' in oid or '/symbols/' in oid or '/ownership' in oid or oid.endswith('/comparators') or '/scanner/' in oid or '/combine/' in oid or ('/readfile/' in oid and (run.tier == 'thorough' or '/near' not in oid))      # quick: every short file + the two-crystal files; the neighbourhood family is C14's
    kept = frame.sweep(run, 'C04', keep=side, modules=mods)
    run.parallel(frame.error_api(run, 'C04'))
    cov = frame.coverage(run, run.obs)
    unc = sorted(n for n, v in cov.items() if not v)
    run.extra['uncovered_functions'] = unc
