# C12 — closed-form scattering formulas are mutually consistent and physically bounded (DESIGN.md §C12)
import z3, math
from z3 import BitVec, BitVecVal, And, Or, Not, Implies, If, RealVal, BoolVal, Real
from vlib import bcheck
from vlib.headers import macros
from vlib.irsym import Eval, Prim, dbl

R = z3.RealSort()
FNS = ['DCS_Thoms', 'DCS_KN', 'CS_KN', 'ComptonEnergy', 'MomentTransf', 'DCSP_Thoms', 'DCSP_KN']


def trig(ev, th):
    sin = ev.uf('m_sin', [R], R); cos = ev.uf('m_cos', [R], R)
    return cos(th), sin(th), cos(th) * cos(th) + sin(th) * sin(th) == 1


def b_kernels(cl, mod, H):
    RE2 = dbl(H['RE2']); MEC2 = dbl(H['MEC2']); PI = dbl(H['PI'])
    ev = Eval(mod)
    E = Real('E'); th = Real('theta'); ph = Real('phi'); th2 = Real('theta2'); ph1 = Real('phi1'); ph2 = Real('phi2')
    c, s, py = trig(ev, th); c2, s2, py2 = trig(ev, th2)
    cos = ev.uf('m_cos', [R], R)
    p = cos(ph); p1 = cos(ph1); p2 = cos(ph2)
    thoms = ev.call('DCS_Thoms', [th]); kn = ev.call('DCS_KN', [E, th]); ce = ev.call('ComptonEnergy', [E, th])
    kn2 = ev.call('DCS_KN', [E, th2]); ce2 = ev.call('ComptonEnergy', [E, th2]); thoms2 = ev.call('DCS_Thoms', [th2])
    pth = ev.call('DCSP_Thoms', [th, ph]); pth1 = ev.call('DCSP_Thoms', [th, ph1]); pth2 = ev.call('DCSP_Thoms', [th, ph2])
    pkn = ev.call('DCSP_KN', [E, th, ph]); pkn1 = ev.call('DCSP_KN', [E, th, ph1]); pkn2 = ev.call('DCSP_KN', [E, th, ph2])
    pth_b = ev.call('DCSP_Thoms', [th2, ph]); pkn_b = ev.call('DCSP_KN', [E, th2, ph])
    ax = [py, py2]
    a = E / MEC2
    A = lambda oid, pre, concl, what, **kw: cl.add('C12/' + oid, ev, pre, concl, what, functions=FNS, assumptions=ax, **kw)
    noerr = lambda r: And(Not(r.errset), r.overwrites == 0)
    # reference closed forms
    A('Thoms/form', BoolVal(True), And(thoms.rv == RE2 / 2 * (1 + c * c), noerr(thoms)), 'DCS_Thoms = RE2/2 (1 + cos^2 theta), never an error')
    A('Thoms/positive', BoolVal(True), And(thoms.rv > 0, thoms.rv <= RE2), 'Thomson differential cross section is positive and bounded')
    A('KN/positive', E > 0, And(kn.rv > 0, noerr(kn)), 'Klein-Nishina differential cross section is positive for E > 0')
    A('KN/le_Thomson', E > 0, kn.rv <= thoms.rv, 'Klein-Nishina never exceeds Thomson at the same angle')
    A('KN/limit', E > 0, And(thoms.rv - kn.rv >= 0, thoms.rv - kn.rv <= 4 * RE2 * a),
      '0 <= Thomson - KN <= 4 RE2 E/mc2, hence KN -> Thomson as E -> 0 (uniformly in the angle)')
    k = ce.rv / E
    A('KN/ratio_form', E > 0, kn.rv == RE2 / 2 * k * k * (k + 1 / k - s * s),
      'DCS_KN = RE2/2 k^2 (k + 1/k - sin^2 theta) with k = ComptonEnergy(E,theta)/E')
    A('Compton/form', E > 0, And(ce.rv == E / (1 + a * (1 - c)), noerr(ce)), 'ComptonEnergy = E / (1 + E/mc2 (1 - cos theta))')
    A('Compton/range', E > 0, And(ce.rv > 0, ce.rv <= E, ce.rv >= E / (1 + 2 * a)), 'scattered energy lies in [E/(1+2E/mc2), E]')
    A('Compton/ends', E > 0, And(Implies(c == 1, ce.rv == E), Implies(c == -1, ce.rv == E / (1 + 2 * a))),
      'E at cos theta = 1 (theta = 0) and E/(1+2E/mc2) at cos theta = -1 (theta = pi)')
    A('Compton/monotone', And(E > 0, c2 <= c), ce2.rv <= ce.rv,
      'scattered energy is non-decreasing in cos theta, i.e. decreases monotonically in theta on [0, pi] (cos decreasing there: imported)')
    # polarised vs unpolarised: affine in cos^2 phi with mean value at cos^2 phi = 1/2
    for nm, P0, P1, P2, U, pre in (('Thoms', pth, pth1, pth2, thoms, BoolVal(True)), ('KN', pkn, pkn1, pkn2, kn, E > 0)):
        A('pol/%s/affine' % nm, pre, (P1.rv - P0.rv) * (p2 * p2 - p * p) == (P2.rv - P0.rv) * (p1 * p1 - p * p),
          'polarised %s depends on phi only through cos^2 phi and is affine in it' % nm)
        A('pol/%s/average' % nm, And(pre, p * p + p1 * p1 == 1), P0.rv + P1.rv == 2 * U.rv,
          'two orthogonal azimuths (cos^2 phi + cos^2 phi\' = 1) average to the unpolarised %s; with <cos^2 phi> = 1/2 (imported) '
          'this is the azimuthal average' % nm)
        A('pol/%s/positive' % nm, And(pre, p * p <= 1), And(P0.rv >= 0, noerr(P0)), 'polarised %s is non-negative' % nm)
    # dependence on the angles only through cos theta, sin^2 theta, cos^2 phi (=> even and 2 pi periodic given libm parity/periodicity)
    same = And(c2 == c, Or(s2 == s, s2 == -s))
    A('parity/theta', And(E > 0, same), And(thoms2.rv == thoms.rv, kn2.rv == kn.rv, ce2.rv == ce.rv, pth_b.rv == pth.rv, pkn_b.rv == pkn.rv),
      'all kernels take the same value at any theta\' with cos theta\' = cos theta and sin theta\' = +-sin theta')
    A('parity/phi', And(E > 0, Or(p1 == p, p1 == -p)), And(pth1.rv == pth.rv, pkn1.rv == pkn.rv),
      'polarised kernels take the same value at any phi\' with cos phi\' = +-cos phi')
    # non-positive energy is an error
    for fn, args in (('DCS_KN', [E, th]), ('CS_KN', [E]), ('ComptonEnergy', [E, th]), ('MomentTransf', [E, th]), ('DCSP_KN', [E, th, ph])):
        r = ev.call(fn, args); r0 = ev.call(fn, args, errslot=False)
        A('neg/' + fn, E <= 0, And(r.rv == 0, r.errset, r.sets_on_slot == 1, r.errcode() == 1, r.overwrites == 0), fn + ': E <= 0 is an INVALID_ARGUMENT error')
        A('noslot/' + fn, BoolVal(True), r0.rv == r.rv, fn + ': error==NULL returns the same value')
    cl.side_obligations('C12/side', ev, functions=FNS, assumptions=ax)


def b_integral(cl, mod, H):
    """CS_KN = 2 pi * integral_{-1}^{1} DCS_KN d(cos theta): antiderivative certificate checked by z3"""
    import sympy as sp
    RE2 = dbl(H['RE2']); MEC2 = dbl(H['MEC2']); PI = dbl(H['PI'])
    ev = Eval(mod)
    E = Real('E'); th = Real('theta')
    c, s, py = trig(ev, th)
    kn = ev.call('DCS_KN', [E, th]); tot = ev.call('CS_KN', [E])
    a = E / MEC2
    LOG = ev.uf('m_log', [R], R); L = LOG(1 + 2 * a)
    # reference kernel f(c) (per unit RE2/2) and its antiderivative from sympy: G(c) = P(c) + Q log(1 + a(1-c))
    A_, C_ = sp.symbols('a c', real=True)
    t1 = (1 - C_) * A_; t2 = 1 + t1
    f = (1 + C_ ** 2 + t1 ** 2 / t2) / t2 ** 2
    G = sp.integrate(f, C_)
    lg = sp.log(A_ * C_ - A_ - 1)  # sympy's choice of argument sign; collect the coefficient of any log
    logs = list(G.atoms(sp.log))
    if len(logs) != 1: raise Exception('unexpected antiderivative shape: %s' % G)
    lsym = logs[0]; Qs = sp.simplify(G.coeff(lsym)); Ps = sp.simplify(G - Qs * lsym)
    if Qs.has(C_): raise Exception('log coefficient depends on c')
    arg = lsym.args[0]  # +-(1 + a(1-c))
    za = Real('a'); zc = Real('c')
    def toz(e):
        e = sp.nsimplify(e)
        if e.is_Symbol: return {'a': za, 'c': zc}[e.name]
        if e.is_Integer: return RealVal(int(e))
        if e.is_Rational: return RealVal(int(e.p)) / RealVal(int(e.q))
        if e.is_Add:
            r = toz(e.args[0])
            for x in e.args[1:]: r = r + toz(x)
            return r
        if e.is_Mul:
            r = toz(e.args[0])
            for x in e.args[1:]: r = r * toz(x)
            return r
        if e.is_Pow:
            b, n = e.args
            if not n.is_Integer: raise Exception('non-integer power')
            bz = toz(b); n = int(n); r = RealVal(1)
            for _ in range(abs(n)): r = r * bz
            return r if n >= 0 else 1 / r
        raise Exception('cannot convert %s' % e)
    fz = toz(f); Pz = toz(Ps); Qz = toz(Qs); dP = toz(sp.diff(Ps, C_)); dlog = toz(sp.diff(sp.log(arg), C_))
    dom = And(za > 0, zc >= -1, zc <= 1)
    cl.add('C12/integral/certificate', ev, dom, dP + Qz * dlog == fz,
           'd/dc [P(c) + Q log|1 + a(1-c)|] = reference KN kernel (rational identity; P, Q from sympy, checked by z3)', functions=['(reference forms)'])
    sub = lambda e, cv: z3.substitute(e, (zc, RealVal(cv)))
    # integral over c in [-1,1] = P(1) - P(-1) + Q (log(1) - log(1+2a)),  log 1 = 0 imported
    integ = sub(Pz, 1) - sub(Pz, -1) - Qz * Real('Lsym')
    # the library's functions equal the reference forms (from the IR), with a = E/MEC2, c = cos theta, L = log(1+2a)
    cl.add('C12/integral/kernel', ev, And(E > 0, py), kn.rv == RE2 / 2 * z3.substitute(fz, (za, a), (zc, c)),
           'DCS_KN (from the IR) is RE2/2 times the reference kernel at a = E/mc2, c = cos theta', functions=['DCS_KN'])
    # 2*PI*RE2 is folded by the compiler into one double constant: evaluate it in double arithmetic as C does
    K = dbl(2 * H['PI'] * H['RE2'])
    ref_tot = K / 2 * z3.substitute(integ, (za, a), (Real('Lsym'), L))
    eps = RealVal('1/1000000000000')   # tolerance for the compiler's folding of the constant 2*PI*RE2 (any association)
    cl.add('C12/integral/total', ev, E > 0, And((tot.rv - ref_tot) * (tot.rv - ref_tot) <= eps * eps * ref_tot * ref_tot, Not(tot.errset)),
           'CS_KN (from the IR) = 2 pi x integral over cos theta of DCS_KN, with log(1+2E/mc2) as a shared symbol (log 1 = 0 imported)',
           functions=['CS_KN'], timeout=120)
    cl.side_obligations('C12/integral/side', ev, functions=['CS_KN', 'DCS_KN'], assume=E > 0)


def check(run):
    H = macros(run)
    run.assumptions += ['real arithmetic for double (DESIGN.md §2.3): nothing is claimed about rounding (see known finding on CS_KN cancellation)',
                        'sin/cos uninterpreted with sin^2+cos^2 = 1 and range [-1,1]; log uninterpreted; imported analytic facts: '
                        'parity/periodicity of libm sin/cos, cos decreasing on [0,pi], <cos^2 phi> = 1/2, log 1 = 0',
                        'constants RE2, MEC2, PI read from the current xraylib.h']
    m = bcheck.load_units(run, ['scattering.c', 'polarized.c'])
    bcheck.run_groups(run, [('C12/kernels', lambda cl: b_kernels(cl, m, H), ()), ('C12/integral', lambda cl: b_integral(cl, m, H), ())])
