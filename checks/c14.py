# C14 — crystal collections stay consistent under any sequence of operations (DESIGN.md §C14): one inductive step per operation
import os, shutil

OPS = [('init', 'Crystal_ArrayInit: any capacity <= 8 (negative rejected); empty valid array; ArrayFree releases it'),
       ('add', 'Crystal_AddCrystal on a user array: new name inserted in order with geometry, atoms (owned copy) and recomputed volume, growth by N_NEW_CRYSTAL when full; duplicate / NULL rejected leaving the array as it was; ArrayFree then releases everything'),
       ('add_builtin', 'Crystal_AddCrystal on the built-in collection: refuses to grow past its fixed capacity, otherwise inserts in place'),
       ('get', 'Crystal_GetCrystal: independent deep copy of the entry of that name; NULL/unknown name: NULL + INVALID_ARGUMENT'),
       ('list', 'Crystal_GetCrystalsList: count, sorted copies of the names, NULL terminated'),
       ('copy', 'Crystal_MakeCopy / Crystal_Free: equal contents in fresh storage; NULL rejected')]


def ops(run, prefix='C14'):
    d = os.path.join(run.tmp, 'c14'); os.makedirs(d, exist_ok=True)
    srcs = [run.harness('c14.c'), run.src('xraylib-error.c'), run.src('xraylib-aux.c'), run.src('xrayvars.c')]     # c14.c #includes the real crystal_diffraction.c
    fns = ['Crystal_ArrayInit', 'Crystal_ArrayFree', 'Crystal_AddCrystal', 'Crystal_ExtendArray', 'Crystal_GetCrystal', 'Crystal_GetCrystalsList', 'Crystal_MakeCopy', 'Crystal_Free']
    T = []
    shapes = [(0, 0), (1, 0), (1, 1), (2, 1), (2, 2)]          # (capacity, entries): empty, room left, full
    for h, what in OPS:
        if h in ('init', 'copy'): variants = [None]
        elif h == 'add_builtin': variants = [(2, 0), (2, 1), (2, 2)]
        else: variants = shapes
        for sh in variants:
            defs = () if sh is None else ('SHAPE_NA=%d' % sh[0], 'SHAPE_N=%d' % sh[1])
            if h.startswith('add'): defs = defs + ('SIMPLE_GEOMETRY',)
            oid = '%s/step/%s' % (prefix, h) + ('' if sh is None else '/cap%d_n%d' % sh)
            T.append(lambda h=h, what=what, defs=defs, oid=oid, sh=sh: run.cbmc(oid, srcs, 'harness_' + h, unwind=5, unwindset=['strdup.0:9', 'strdup.1:9', 'Crystal_ExtendArray.0:4'],
                backends=('cadical', 'kissat'), functions=fns, leak=True, defines=defs,
                bounds='pre-state: capacity %s, entries %s (every shape with capacity <= 2 is a separate obligation); names <= 2 bytes over {a,b,c}, <= 1 atom per crystal, arbitrary geometry' % (('any' if sh is None else sh[0]), ('-' if sh is None else sh[1])),
                what=what, stubs=['cos/sin/pow -> 0, sqrt -> identity (libm not the subject): the real Crystal_UnitCellVolume then evaluates to a*b*c', 'typed bsearch/qsort/memcpy models with the real comparators', 'strdup bounded copy', 'vasprintf/fprintf O(1)'],
                timeout=200 if run.tier == 'quick' else 900))
    T.append(lambda: run.cbmc(prefix + '/comparators', srcs, 'harness_comparators', unwind=27, backends=('cadical', 'kissat'), functions=['xrayvars.c:matchCrystalStruct', 'xrayvars.c:compareCrystalStructs'],
        bounds='every pair of names of up to 24 bytes (all byte values)', what='the lookup and the sort comparator both realise strcmp on the full names (so sorted order, duplicate detection and lookup agree)'))
    return T


def check(run):
    run.assumptions += ['allocation never fails', 'inductive step: histories of any length are covered if the representation invariant is right; sizes beyond the bound are outside the solver claim (no size-dependent branch except n == n_alloc, exercised on both sides)',
                        'Crystal_ReadFile (file I/O) is not encoded in this round']
    run.parallel(ops(run))
