# C14 — crystal collections stay consistent under any sequence of operations (DESIGN.md §C14): one inductive step per operation
import os, shutil

OPS = [('init', 'Crystal_ArrayInit: any capacity <= 8 (negative rejected); empty valid array; ArrayFree releases it'),
       ('add', 'Crystal_AddCrystal on a user array: new name inserted in order with geometry, atoms (owned copy) and recomputed volume, growth by N_NEW_CRYSTAL when full; duplicate / NULL rejected leaving the array as it was; ArrayFree then releases everything'),
       ('add_builtin', 'Crystal_AddCrystal on the built-in collection: refuses to grow past its fixed capacity, otherwise inserts in place'),
       ('get', 'Crystal_GetCrystal: independent deep copy of the entry of that name; NULL/unknown name: NULL + INVALID_ARGUMENT'),
       ('list', 'Crystal_GetCrystalsList: count, sorted copies of the names, NULL terminated'),
       ('copy', 'Crystal_MakeCopy / Crystal_Free: equal contents in fresh storage; NULL rejected')]


def ops(run, prefix='C14'):
    d = os.path.join(run.tmp, 'c14'); os.makedirs(d, exist_ok=True)
    srcs = [run.harness('c14.c'), run.src('xraylib-error.c'), run.src('xraylib-aux.c'), run.src('xrayvars.c')]     # c14.c #includes the real crystal_diffraction.c
    fns = ['Crystal_ArrayInit', 'Crystal_ArrayFree', 'Crystal_AddCrystal', 'Crystal_ExtendArray', 'Crystal_GetCrystal', 'Crystal_GetCrystalsList', 'Crystal_MakeCopy', 'Crystal_Free']
    T = []
    shapes = [(0, 0), (1, 0), (1, 1), (2, 1), (2, 2)]          # (capacity, entries): empty, room left, full
    for h, what in OPS:
        if h in ('init', 'copy'): variants = [None]
        elif h == 'add_builtin': variants = [(2, 0), (2, 1), (2, 2)]
        else: variants = shapes
        for sh in variants:
            defs = () if sh is None else ('SHAPE_NA=%d' % sh[0], 'SHAPE_N=%d' % sh[1])
            if h.startswith('add'): defs = defs + ('SIMPLE_GEOMETRY',)
            oid = '%s/step/%s' % (prefix, h) + ('' if sh is None else '/cap%d_n%d' % sh)
            T.append(lambda h=h, what=what, defs=defs, oid=oid, sh=sh: run.cbmc(oid, srcs, 'harness_' + h, unwind=5, unwindset=['strdup.0:9', 'strdup.1:9', 'Crystal_ExtendArray.0:4'],
                backends=('cadical', 'kissat'), functions=fns, leak=True, defines=defs,
                bounds='pre-state: capacity %s, entries %s (every shape with capacity <= 2 is a separate obligation); names <= 2 bytes over {a,b,c}, <= 1 atom per crystal, arbitrary geometry' % (('any' if sh is None else sh[0]), ('-' if sh is None else sh[1])),
                what=what, stubs=['cos/sin/pow -> 0, sqrt -> identity (libm not the subject): the real Crystal_UnitCellVolume then evaluates to a*b*c', 'typed bsearch/qsort/memcpy models with the real comparators', 'strdup bounded copy', 'vasprintf/fprintf O(1)'],
                timeout=200 if run.tier == 'quick' else 900))
    T.append(lambda: run.cbmc(prefix + '/comparators', srcs, 'harness_comparators', unwind=27, backends=('cadical', 'kissat'), functions=['xrayvars.c:matchCrystalStruct', 'xrayvars.c:compareCrystalStructs'],
        bounds='every pair of names of up to 24 bytes (all byte values)', what='the lookup and the sort comparator both realise strcmp on the full names (so sorted order, duplicate detection and lookup agree)'))
    return T


# ---- Crystal_ReadFile: stream model, case split by the kind of every line (harness/c14_read.c)
import subprocess, itertools
from vlib import core
KINDS = ['S_OK', 'S_BAD', 'UCELL_OK', 'UCELL_BAD', 'L', 'HASH', 'ATOM_OK', 'ATOM_BAD', 'BLANK', 'TEXT']
NK = len(KINDS)
CANON = [0, 2, 4, 6, 5]              # '#S', '#UCELL', '#L', one atom, a terminating comment line


def code(kinds):
    v = 0
    for k in reversed(kinds): v = v * NK + k
    return v


def file_families(tier):
    """(family name, list of (number of lines, code, last line ends in newline))"""
    short = []
    for n in range(0, 4 if tier == 'quick' else 5):
        for t in itertools.product(range(NK), repeat=n): short.append((n, code(t), 1))
    near = {tuple(CANON)}
    for i in range(len(CANON)):
        near.add(tuple(CANON[:i] + CANON[i + 1:]))                                   # one line missing
        for k in range(NK): near.add(tuple(CANON[:i] + [k] + CANON[i + 1:]))         # one line replaced
    for i in range(len(CANON) + 1):
        for k in range(NK): near.add(tuple(CANON[:i] + [k] + CANON[i:]))             # one line inserted
    nearl = sorted(near)
    nofinalnl = [(len(t), code(t), 0) for t in nearl if len(t) > 0]
    # a second crystal that fails (or repeats the name) after a complete first one: the rollback must remove the first one too
    two = [[0, 2, 4, 1], [0, 2, 4, 0], [0, 2, 4, 0, 2, 4], [0, 2, 4, 6, 0, 3], [0, 2, 4, 5, 0, 2], [0, 2, 4, 5, 1], [0, 2, 4, 6, 6, 0]]
    return [('short', short), ('near', [(len(t), code(t), 1) for t in nearl]), ('near-no-final-newline', nofinalnl), ('two-crystals', [(len(t), code(t), nl) for t in two for nl in (1, 0)])]


def readfile(run, prefix='C14'):
    fns = ['Crystal_ReadFile', 'Crystal_ExtendArray', 'Crystal_ArrayFree', 'Crystal_UnitCellVolume', 'xrayvars.c:compareCrystalStructs']
    aux = [run.src('xraylib-error.c'), run.src('xraylib-aux.c'), run.src('xrayvars.c')]
    T = []
    def unit(na, n):
        out = []
        for wit in (False, True):
            gb = os.path.join(run.tmp, 'c14read_%d_%d%s.gb' % (na, n, '_w' if wit else ''))
            cmd = ['goto-cc'] + run.inc + ['-DLINES_MAX=6', '-DSHAPE_NA=%d' % na, '-DSHAPE_N=%d' % n] + (['-DWITNESS'] if wit else []) + [run.harness('c14_read.c')] + aux + ['-o', gb]
            r = subprocess.run(cmd, capture_output=True, text=True)
            if r.returncode != 0: raise core.BuildError('goto-cc c14_read.c: ' + (r.stderr or r.stdout)[-2000:])
            out.append(gb)
        return out
    units = {}; ulock = __import__('threading').Lock()
    def batch(oid, na, n, name, files, wit, what_extra):
        try:
            with ulock:                                            # batches run in threads: build each unit once
                if (na, n) not in units: units[(na, n)] = unit(na, n)
            gbs = []
            for w in ((False, True) if wit else (False,)):
                tr = os.path.join(run.tmp, 'c14rt_%s%s.gb' % (oid.replace('/', '_'), '_w' if w else ''))
                lst = ' '.join('one_file(%d, %dL, %d);' % f for f in files)
                r = subprocess.run(['goto-cc'] + run.inc + ['-DFILE_CALLS=' + lst, "-DFILE_NAME='%s'" % name, '-c', run.harness('c14_read_tramp.c'), '-o', tr], capture_output=True, text=True)
                if r.returncode != 0: raise core.BuildError('goto-cc c14_read_tramp.c: ' + (r.stderr or r.stdout)[-1500:])
                ab = tr[:-3] + '_l.gb'
                r = subprocess.run(['goto-cc', units[(na, n)][1 if w else 0], tr, '-o', ab], capture_output=True, text=True)
                if r.returncode != 0: raise core.BuildError('link: ' + (r.stderr or r.stdout)[-1500:])
                gbs.append(ab)
            if len(gbs) == 1: gbs.append(None)
        except core.BuildError as e:
            ob = core.Ob(oid, 'A:cbmc', fns, '', 'ReadFile batch'); ob.reason = 'BUILD: ' + str(e); run.add_ob(ob); return ob
        ob = run.cbmc(oid, [], 'harness_readfile', unwind=12, backends=('cadical',), prebuilt=tuple(gbs), witness=wit, leak=True, object_bits=12,
                      flags=('--max-field-sensitivity-array-size', '600'), functions=fns, timeout=600 if run.tier == 'quick' else 1800,
                      bounds='%d files of <= 6 lines (%s), every line one of %d kinds; pre-state: user array of capacity %d with %d entries ("b", "d"); every crystal of the file is named "%s"; cell lengths on a grid, atom records symbolic'
                             % (len(files), what_extra, NK, na, n, name),
                      what='Crystal_ReadFile: a rejected file leaves the collection as it was (count and entries) with one error; an accepted file leaves a strictly sorted array that still holds every previous entry, new entries carry a name / cell / atoms of the file and a recomputed volume; the stream is closed exactly once; ArrayFree then releases everything (leak, double free, bounds)',
                      stubs=['stdio model: stream = sequence of lines; fgets NULL at EOF leaves the buffer untouched; ftell/fseek by line; fscanf consumes one atom line, skips blank lines; sscanf conversions by line kind', 'libm stand-ins as in the container harness'])
        for f in gbs:
            try:
                if f: os.unlink(f)
            except OSError: pass
        return ob
    fam = file_families(run.tier)
    # every file with few lines on an empty array; the neighbourhood of the canonical file on every pre-state and name relation
    B = 100
    for name_, files in fam[:1]:
        for i in range(0, len(files), B):
            T.append(lambda i=i, files=files: batch('%s/readfile/short/%d' % (prefix, i // B), 0, 0, 'a', files[i:i + B], i == 0, 'all files of <= %d lines, ids %d..' % (3 if run.tier == 'quick' else 4, i)))
    pre = [(0, 0, 'a'), (1, 1, 'b'), (2, 1, 'a'), (2, 1, 'b'), (2, 1, 'c')] + ([(1, 0, 'a'), (1, 1, 'a'), (2, 2, 'c'), (2, 2, 'd')] if run.tier == 'thorough' else [])
    NB = 30
    for name_, files in fam[1:]:
        for na, n, nm in pre:
            if name_ == 'near-no-final-newline' and (na, n, nm) not in ((0, 0, 'a'), (2, 1, 'b')): continue
            for i in range(0, len(files), NB):
                T.append(lambda name_=name_, files=files[i:i + NB], na=na, n=n, nm=nm, i=i: batch('%s/readfile/%s/cap%d_n%d_%s/%d' % (prefix, name_, na, n, nm, i // NB), na, n, nm, files, name_ == 'near' and (na, n, nm) == (0, 0, 'a') and i == 0,
                                                                                ('a complete first crystal followed by a second one that fails or repeats the name' if name_ == 'two-crystals' else 'canonical file #S/#UCELL/#L/atom/# with one line missing, replaced or inserted' + ('' if name_ == 'near' else ', last line without newline'))))
    srcs = [run.harness('c14_read.c')] + aux
    T.append(lambda: run.cbmc(prefix + '/readfile/canonical', srcs + [run.harness('c14_read_tramp.c')], 'harness_readfile_canonical', unwind=12, backends=('cadical',), functions=fns, leak=True, object_bits=12,
                              flags=('--max-field-sensitivity-array-size', '600'), bounds='the one canonical file', what='the canonical single-crystal file (#S, #UCELL, #L, one atom line, a terminating comment) is accepted and yields that crystal'))
    return T


def check(run):
    run.assumptions += ['allocation never fails', 'inductive step: histories of any length are covered if the representation invariant is right; sizes beyond the bound are outside the solver claim (no size-dependent branch except n == n_alloc, exercised on both sides)',
                        'Crystal_ReadFile: consistency obligations over a stream model, files enumerated by line kinds (not a file grammar: which files are accepted is not specified beyond the canonical one)']
    run.parallel(ops(run) + readfile(run))
