# C11 — Auger yields and rates are the documented derivation of the raw tables (DESIGN.md §C11)
import re, z3
from z3 import BitVec, BitVecVal, SignExt, And, Or, Not, Implies, If, RealVal, BoolVal, Real
from vlib import bcheck
from vlib.headers import macros
from vlib.irsym import Eval, Prim, dbl
from checks.c08 import auger_macros, SHELLS

S32 = z3.BitVecSort(32); S64 = z3.BitVecSort(64); R = z3.RealSort()
FNS = ['pr_data.c:AugerYield_prdata', 'pr_data.c:AugerYield2_prdata', 'pr_data.c:AugerRate_prdata']


def ck_of(H, s):
    """Coster-Kronig macros whose initial sub-shell is s (from the macro names F<L|M>[P]<a><b>)"""
    out = []
    for k in H:
        m = re.fullmatch(r'F([LM])P?(\d)(\d)_TRANS', k)
        if m and m.group(1) + m.group(2) == s: out.append(k)
    return sorted(out)


def is_ck_type(s0, x, y):
    return x[0] == s0[0] or y[0] == s0[0]


def b_yield(cl, mod, H):
    ev = Eval(mod, prims={'FluorYield': Prim(), 'CosKronTransProb': Prim()})
    Z = BitVec('Z', 32); sh = BitVec('shell', 32)
    rv = ev.run('AugerYield_prdata', [Z, sh])[0]
    FY = ev.uf('FluorYield', [S32, S32], R); CK = ev.uf('CosKronTransProb', [S32, S32], R)
    zin = And(Z >= 1, Z <= H['ZMAX'])
    for s in SHELLS:
        w = FY(Z, BitVecVal(H[s + '_SHELL'], 32))
        cks = ck_of(H, s)
        tot = sum([CK(Z, BitVecVal(H[k], 32)) for k in cks], RealVal(0))
        cl.add('C11/yield/' + s, ev, And(zin, sh == H[s + '_SHELL']), rv == If(w > 0, 1 - w - tot, 0),
               'Auger yield of %s = 1 - fluorescence yield - sum of its Coster-Kronig probabilities %s (0 when no fluorescence yield is tabulated)' %
               (s, [k[:-6] for k in cks]), functions=FNS[:1])
        cl.add('C11/yield/%s/unity' % s, ev, And(zin, sh == H[s + '_SHELL'], w > 0, rv > 0, *[CK(Z, BitVecVal(H[k], 32)) >= 0 for k in cks]),
               And(rv + w + tot == 1, rv <= 1, w <= 1, tot <= 1), 'when positive, the three decay channels partition unity and each lies in [0,1]', functions=FNS[:1])
    cl.add('C11/yield/range', ev, Or(Not(zin), sh < H['K_SHELL'], sh > H['M5_SHELL']), rv == 0, 'outside Z 1..ZMAX or K..M5: 0 (reported as unavailable by the accessor)', functions=FNS[:1])
    cl.side_obligations('C11/yield/side', ev, functions=FNS[:1])


def b_yield2(cl, mod, H):
    ev = Eval(mod)
    Z = BitVec('Z', 32); sh = BitVec('shell', 32)
    rv = ev.run('AugerYield2_prdata', [Z, sh])[0]
    TOT = ev.uf('Auger_Transition_Total|3', [S64] * 3, R); IND = ev.uf('Auger_Transition_Individual|3', [S64] * 3, R)
    zin = And(Z >= 1, Z <= H['ZMAX'])
    AM = auger_macros(H)
    for s in SHELLS:
        ck = [v for v, s0, x, y in AM if s0 == s and is_ck_type(s0, x, y)]
        ref = TOT(BitVecVal(0, 64), SignExt(32, Z), BitVecVal(H[s + '_SHELL'], 64)) - sum([IND(BitVecVal(0, 64), SignExt(32, Z), BitVecVal(v, 64)) for v in ck], RealVal(0))
        cl.add('C11/yield2/' + s, ev, And(zin, sh == H[s + '_SHELL']), rv == ref,
               'net non-radiative total of %s = raw total - the %d Coster-Kronig-type transitions %s-XY (a hole in the same principal shell), by NAME' % (s, len(ck), s),
               functions=FNS[1:2], timeout=120)
    cl.side_obligations('C11/yield2/side', ev, functions=FNS[1:2])


def b_rate(cl, mod, H, s):
    ev = Eval(mod, prims={'AugerYield2_prdata': Prim(kind='pure')})
    Z = BitVec('Z', 32); t = BitVec('t', 32)
    rv = ev.run('AugerRate_prdata', [Z, t])[0]
    IND = ev.uf('Auger_Transition_Individual|3', [S64] * 3, R); Y2 = ev.uf('AugerYield2_prdata', [S32, S32], R)
    zin = And(Z >= 1, Z <= H['ZMAX'])
    AM = auger_macros(H)
    ind = IND(BitVecVal(0, 64), SignExt(32, Z), SignExt(32, t))
    if s == 'range':
        cl.add('C11/rate/range', ev, Or(Not(zin), t < 0, t > H['M4_M5Q3_AUGER']), rv == 0, 'outside the macro range: 0', functions=FNS[2:])
        allv = [v for v, *_ in AM]
        cl.add('C11/rate/coverage', ev, And(t >= 0, t <= H['M4_M5Q3_AUGER']), Or(*[t == v for v in allv]) if len(allv) < 2000 else BoolVal(True),
               'every value in the macro range is a named Auger macro (%d)' % len(allv), functions=FNS[2:])
        cl.side_obligations('C11/rate/side', ev, functions=FNS[2:], assume=BoolVal(True))
        return
    ck = [v for v, s0, x, y in AM if s0 == s and is_ck_type(s0, x, y)]
    nor = [v for v, s0, x, y in AM if s0 == s and not is_ck_type(s0, x, y)]
    if ck:
        cl.add('C11/rate/%s/ck' % s, ev, And(zin, Or(*[t == v for v in ck])), rv == 0, 'Coster-Kronig-type transitions of %s (%d, by NAME) are reported as unavailable' % (s, len(ck)), functions=FNS[2:])
    if nor:
        y2 = Y2(Z, BitVecVal(H[s + '_SHELL'], 32))
        cl.add('C11/rate/%s/value' % s, ev, And(zin, Or(*[t == v for v in nor])), rv == If(Or(ind == 0, y2 < dbl(1E-8)), 0, ind / y2),
               'Auger rate of a %s-XY transition (%d, source shell by NAME) = raw rate / net non-radiative total of %s (0 when either is absent)' % (s, len(nor), s), functions=FNS[2:])


def check(run):
    H = macros(run)
    run.assumptions += ['real arithmetic for double (DESIGN.md §2.3)', 'FluorYield/CosKronTransProb uninterpreted; raw Auger tables uninterpreted',
                        'the accessor side (AugerRate/AugerYield return the stored cell or an error) is C01; the fill loop i < ZMAX leaves row ZMAX empty (no source data for Z=120)']
    # -Dstatic= : the three derivation functions are file-static; with internal linkage clang's inter-procedural constant
    # propagation deletes their own range checks (all call sites are in range). External linkage keeps the source semantics.
    mod = bcheck.load_units(run, ['pr_data.c'], extra=('-Dstatic=',))
    groups = [('C11/yield', lambda cl: b_yield(cl, mod, H), ()), ('C11/yield2', lambda cl: b_yield2(cl, mod, H), ())]
    for s in SHELLS + ['range']:
        groups.append(('C11/rate/' + s, (lambda cl, s=s: b_rate(cl, mod, H, s)), ()))
    bcheck.run_groups(run, groups)
    # run-time side: the two accessors return the stored value when positive, else an error (Engine A, shared with C01)
    from checks import c01
    c01.accessors(run, only_fns=('AugerRate', 'AugerYield'), prefix='C11')
