# C13 — crystal diffraction results obey Bragg's law and structure-factor algebra (DESIGN.md §C13)
import z3
from z3 import BitVec, BitVecVal, SignExt, And, Or, Not, Implies, If, RealVal, BoolVal, Real, Bool
from vlib import bcheck
from vlib.headers import macros
from vlib.irsym import Eval, Prim, dbl, P, key_of

S32 = z3.BitVecSort(32); S64 = z3.BitVecSort(64); R = z3.RealSort()
NMAX = 3
FIELD = {'a': 1, 'b': 2, 'c': 3, 'alpha': 4, 'beta': 5, 'gamma': 6, 'volume': 7, 'n_atom': 8}


class Cryst:
    """symbolic user crystal: every field an uninterpreted value (so any cell, any atom list of <= NMAX atoms)"""
    def __init__(self, ev, H):
        self.ev = ev; ev.nonnull_roots = ('h:crystal',)
        B = lambda v: BitVecVal(v, 64)
        f = lambda k: ev.uf('crystal|2', [S64] * 2, R)(B(0), B(FIELD[k]))
        self.a, self.b, self.c, self.alpha, self.beta, self.gamma, self.volume = [f(k) for k in ('a', 'b', 'c', 'alpha', 'beta', 'gamma', 'volume')]
        self.n = ev.uf('crystal|2', [S64] * 2, S32)(B(0), B(8))
        atom = lambda i, k, sort: ev.uf('crystal|2|2', [S64] * 4, sort)(B(0), B(9), B(i), B(k))
        self.Z = lambda i: atom(i, 0, S32); self.frac = lambda i: atom(i, 1, R)
        self.x = lambda i: atom(i, 2, R); self.y = lambda i: atom(i, 3, R); self.z = lambda i: atom(i, 4, R)
        self.ptr = P.to('h:crystal', (0,))
        DEG = dbl(H['PI'] / 180.0)
        sin = ev.uf('m_sin', [R], R); cos = ev.uf('m_cos', [R], R)
        self.s = [sin(x * DEG) for x in (self.alpha, self.beta, self.gamma)]
        self.cs = [cos(x * DEG) for x in (self.alpha, self.beta, self.gamma)]
        self.pyth = [si * si + ci * ci == 1 for si, ci in zip(self.s, self.cs)]


def b_geometry(cl, mod, H):
    ev = Eval(mod); cr = Cryst(ev, H)
    i, j, k = BitVec('h', 32), BitVec('k', 32), BitVec('l', 32); nmul = BitVec('n', 32)
    small = lambda v: And(v >= -64, v <= 64)
    d = ev.call('Crystal_dSpacing', [cr.ptr, i, j, k])
    dnull = ev.call('Crystal_dSpacing', [P.null(), i, j, k])
    vol = ev.call('Crystal_UnitCellVolume', [cr.ptr])
    fns = ['Crystal_dSpacing', 'Crystal_UnitCellVolume']
    I, J, K = [ev.int2real(v) for v in (i, j, k)]
    a, b, c = cr.a, cr.b, cr.c; (sa, sb, sg), (ca, cb, cg) = cr.s, cr.cs
    def quad(I, J, K):
        return (I * sa / a) * (I * sa / a) + (J * sb / b) * (J * sb / b) + (K * sg / c) * (K * sg / c) + \
            2 * I * J * (ca * cb - cg) / (a * b) + 2 * I * K * (ca * cg - cb) / (a * c) + 2 * J * K * (cb * cg - ca) / (b * c)
    Q = quad(I, J, K)
    cell = And(a > 0, b > 0, c > 0, cr.volume > 0, *cr.pyth)
    nz = Or(i != 0, j != 0, k != 0)
    A = lambda oid, e, pre, concl, what, **kw: cl.add('C13/' + oid, e, pre, concl, what, functions=fns, **kw)
    fail = lambda r: And(r.rv == 0, r.errset, r.sets_on_slot == 1, r.errcode() == 1, r.overwrites == 0)
    base = And(cell, nz, small(i), small(j), small(k), Q > 0)
    form = lambda dv, q: And(dv > 0, dv * dv * q * (a * b * c) * (a * b * c) == cr.volume * cr.volume)
    A('d/form', ev, base, And(form(d.rv, Q), Not(d.errset)),
      '1/d^2 = (abc/V)^2 x reciprocal-metric quadratic form in (h,k,l) (as real expressions), d > 0')
    A('d/zero', ev, And(i == 0, j == 0, k == 0), fail(d), '(0,0,0): INVALID_ARGUMENT error')
    A('d/null', ev, BoolVal(True), fail(dnull), 'NULL crystal: INVALID_ARGUMENT error')
    G = 1 - ca * ca - cb * cb - cg * cg + 2 * ca * cb * cg
    A('volume/form', ev, And(cell, G >= 0), And(vol.rv >= 0, vol.rv * vol.rv == (a * b * c) * (a * b * c) * G, Not(vol.errset)),
      'UnitCellVolume^2 = (abc)^2 (1 - cos^2 alpha - cos^2 beta - cos^2 gamma + 2 cos alpha cos beta cos gamma)')
    A('volume/null', ev, BoolVal(True), fail(ev.call('Crystal_UnitCellVolume', [P.null()])), 'NULL crystal: error')
    cl.side_obligations('C13/geometry/side', ev, functions=fns, assume=And(base, G >= 0), ignore=('sqrt argument',),
                        what='no division by zero / NULL dereference / int overflow for valid cells (a,b,c,V > 0) and |indices| <= 64; sqrt domain is the premise Q > 0, '
                             'G >= 0 (DL2 for the built-in crystals)')
    # inversion and scaling: the same characterisation holds for the call with (-h) resp. (n h), against the form in the ORIGINAL indices
    # (d is the unique positive root, so d(-h) = d(h) and d(n h) |n| = d(h) follow)
    def sqrt_denominator(e):
        """Q' such that the evaluated d-spacing contains sqrt(1/Q')"""
        from z3 import simplify
        seen = set(); found = []
        def walk(x):
            if x.get_id() in seen: return
            seen.add(x.get_id())
            if z3.is_app(x) and x.decl().name() == 'm_sqrt': found.append(x.arg(0))
            for ch in x.children(): walk(ch)
        walk(e)
        if len(found) != 1 or found[0].decl().kind() != z3.Z3_OP_DIV: return None
        return found[0].arg(1)
    for tag, args, fac, extra, what in (
            ('identity', lambda: [i, j, k], lambda e_: RealVal(1), BoolVal(True), 'same characterisation through the two-step route (lemma on the quadratic form, then rewrite)'),
            ('inversion', lambda: [-i, -j, -k], lambda e_: RealVal(1), BoolVal(True), 'the d-spacing of (-h,-k,-l) satisfies the same equation as that of (h,k,l): invariant under inversion'),
            ('scaling', lambda: [nmul * i, nmul * j, nmul * k], lambda e_: e_.int2real(nmul) * e_.int2real(nmul), And(nmul != 0, small(nmul)),
             'd(n h)^2 n^2 Q(h) (abc)^2 = V^2, i.e. d(n h) = d(h)/|n|')):
        e2 = Eval(mod); c2 = Cryst(e2, H)
        dd = e2.call('Crystal_dSpacing', [c2.ptr] + args(), errslot=False)
        qd = sqrt_denominator(dd.rv)
        if qd is None:
            cl.note_unsupported('C13/d/' + tag, 'could not locate sqrt(1/Q) in the evaluated d-spacing', fns); continue
        target = fac(e2) * Q
        # two steps: (1) the quadratic form of the transformed indices equals the stated multiple of Q(h) (polynomial identity);
        #            (2) with that lemma, the characterisation of d
        A('d/%s/lemma' % tag, e2, And(a != 0, b != 0, c != 0, extra), qd == target, 'quadratic form under the square root (transformed indices) = %s x the reciprocal-metric form Q(h,k,l)' % ('n^2' if tag == 'scaling' else '1'))
        class _E: pass
        e3 = _E(); e3.branch_preds = {}
        e3.axioms = [z3.substitute(x, (qd, target)) for x in e2.axioms]      # rewriting with the proved lemma
        prem = And(base, extra)
        if tag == 'scaling':
            Nr = e2.int2real(nmul)
            A('d/scaling/nonzero', e2, nmul != 0, Nr != 0, 'n != 0 as an integer means n != 0 as a real (bridging fact for the next claim)')
            prem = And(prem, Nr != 0)
        cl.add('C13/d/' + tag, e3, prem, z3.substitute(form(dd.rv, target), (qd, target)), what + ' (using the lemma as a rewrite)', functions=fns)


def b_bragg(cl, mod, H):
    ev = Eval(mod, prims={'Crystal_dSpacing': Prim()}); cr = Cryst(ev, H)
    i, j, k = BitVec('h', 32), BitVec('k', 32), BitVec('l', 32); E = Real('E'); rel = Real('rel_angle')
    K2A = dbl(H['KEV2ANGST'])
    br = ev.call('Bragg_angle', [cr.ptr, E, i, j, k]); br0 = ev.call('Bragg_angle', [cr.ptr, E, i, j, k], errslot=False)
    q = ev.call('Q_scattering_amplitude', [cr.ptr, E, i, j, k, rel])
    sin = ev.uf('m_sin', [R], R)
    # Crystal_dSpacing takes the crystal pointer: the primitive is keyed on its non-pointer arguments
    d = ev.uf('Crystal_dSpacing', [S32] * 3, R)(i, j, k)
    fns = ['Bragg_angle', 'Q_scattering_amplitude']
    fail = lambda r: And(r.rv == 0, r.errset, r.sets_on_slot == 1, r.overwrites == 0)
    lam = K2A / E
    cl.add('C13/bragg/law', ev, And(E > 0, d > 0, lam <= 2 * d), And(2 * d * sin(br.rv) == lam, Not(br.errset), r_ok(br)), '2 d sin(theta_B) = hc/E when a reflection exists', functions=fns)
    cl.add('C13/bragg/none', ev, And(E > 0, d > 0, lam > 2 * d), fail(br), 'no reflection (lambda > 2d): an error, never NaN', functions=fns)
    cl.add('C13/bragg/fail', ev, Or(E <= 0, Not(d > 0)), fail(br), 'E <= 0, or d-spacing undefined ((0,0,0), NULL crystal): error', functions=fns)
    cl.add('C13/bragg/noslot', ev, BoolVal(True), br0.rv == br.rv, 'error==NULL: same value', functions=fns)
    nz = Or(i != 0, j != 0, k != 0)
    B = ev.uf('m_asin', [R], R)(lam / (2 * d))
    cl.add('C13/Q/value', ev, And(E > 0, nz, d > 0, lam <= 2 * d), And(q.rv == E * sin(rel * br.rv) / K2A, Not(q.errset)), 'Q = E sin(rel x theta_B)/hc', functions=fns)
    cl.add('C13/Q/zero', ev, And(E > 0, Not(nz)), And(q.rv == 0, Not(q.errset)), '(0,0,0): amplitude 0 is legitimate (no error)', functions=fns)
    cl.add('C13/Q/neg', ev, E <= 0, fail(q), 'E <= 0: error', functions=fns)
    cl.side_obligations('C13/bragg/side', ev, functions=fns, assume=BoolVal(True))


def r_ok(r): return r.overwrites == 0


def b_atomic(cl, mod, H):
    ev = Eval(mod, prims={'FF_Rayl': Prim(), 'Fi': Prim(nonneg=False), 'Fii': Prim(nonneg=False)})
    Z = BitVec('Z', 32); E = Real('E'); q = Real('q'); D = Real('debye')
    outs = [P.to('h:f0'), P.to('h:fp'), P.to('h:fpp')]
    r = ev.call('Atomic_Factors', [Z, E, q, D] + outs)
    F0 = ev.uf('FF_Rayl', [S32, R], R)(Z, q); FP = ev.uf('Fi', [S32, R], R)(Z, E); FPP = ev.uf('Fii', [S32, R], R)(Z, E)
    m = lambda k: r.st.mem.get(('h:' + k, (0,)))
    good = And(D > 0, F0 > 0, FP != 0, FPP != 0)
    fns = ['Atomic_Factors']
    cl.add('C13/atomic/value', ev, good, And(r.rv == 1, m('f0') == F0 * D, m('fp') == FP * D, m('fpp') == -FPP * D, Not(r.errset), r.overwrites == 0),
           'Atomic_Factors outputs (f0 D, f\' D, -f\'\' D) with f0 = FF_Rayl(Z,q), f\' = Fi(Z,E), f\'\' = Fii(Z,E)', functions=fns)
    cl.add('C13/atomic/fail', ev, Not(good), And(r.rv == 0, m('f0') == 0, m('fp') == 0, m('fpp') == 0, r.errset, r.sets_on_slot == 1, r.overwrites == 0),
           'D <= 0 or any factor unavailable: all outputs zeroed, exactly one error', functions=fns)
    cl.side_obligations('C13/atomic/side', ev, functions=fns)


def b_structure(cl, mod, H, n, nlast=NMAX):
    ev = Eval(mod, unroll=NMAX + 1, prims={'Q_scattering_amplitude': Prim(), 'FF_Rayl': Prim(), 'Fi': Prim(nonneg=False), 'Fii': Prim(nonneg=False)})
    # Q_scattering_amplitude may legitimately return 0 without an error ((0,0,0)): custom contract below
    cr = Cryst(ev, H)
    i, j, k = BitVec('h', 32), BitVec('k', 32), BitVec('l', 32); E = Real('E'); D = Real('debye'); rel = Real('rel_angle')
    f0f, fpf, fppf = BitVec('f0_flag', 32), BitVec('fp_flag', 32), BitVec('fpp_flag', 32)
    ev.axioms.append(And(cr.n >= 0, cr.n <= NMAX))
    qerr = Bool('q_fails')
    def qprim(ev_, st, args, ins):
        qv = ev_.uf('Q_scattering_amplitude', [R, S32, S32, S32, R], R)(args[1], args[2], args[3], args[4], args[5])
        ev_.set_error(st, args[6], code=1, msg=None, how='prim:Q_scattering_amplitude', when=qerr)
        return qv        # on failure the caller returns before using the value
    ev.prims['Q_scattering_amplitude'] = Prim(kind='custom', post=qprim)
    args = [cr.ptr, E, i, j, k, D, rel, f0f, fpf, fppf]
    r = ev.call('Crystal_F_H_StructureFactor_Partial', args)
    fn = 'Crystal_F_H_StructureFactor_Partial'
    q = ev.uf('Q_scattering_amplitude', [R, S32, S32, S32, R], R)(E, i, j, k, rel)
    sin = ev.uf('m_sin', [R], R); cos = ev.uf('m_cos', [R], R); TWOPI = dbl(2 * H['PI'])
    I, J, K = [ev.int2real(v) for v in (i, j, k)]
    Zs = [cr.Z(a) for a in range(n)]
    F0 = lambda z: ev.uf('FF_Rayl', [S32, R], R)(z, q) * D
    FP = lambda z: ev.uf('Fi', [S32, R], R)(z, E) * D
    FPP = lambda z: -ev.uf('Fii', [S32, R], R)(z, E) * D
    flags_ok = And(Or(f0f == 0, f0f == 1, f0f == 2), Or(fpf == 0, fpf == 2), Or(fppf == 0, fppf == 2))
    zok = And(*[And(z >= 1, z <= H['ZMAX']) for z in Zs]) if n else BoolVal(True)
    avail = And(D > 0, *[And(ev.uf('FF_Rayl', [S32, R], R)(z, q) > 0, ev.uf('Fi', [S32, R], R)(z, E) != 0, ev.uf('Fii', [S32, R], R)(z, E) != 0) for z in Zs]) if n else BoolVal(True)
    re = RealVal(0); im = RealVal(0)
    for a in range(n):
        z = Zs[a]
        fre = If(f0f == 0, RealVal(0), If(f0f == 1, RealVal(1), F0(z))) + If(fpf == 2, FP(z), RealVal(0))
        fim = If(fppf == 2, FPP(z), RealVal(0))
        phi = TWOPI * (I * cr.x(a) + J * cr.y(a) + K * cr.z(a))
        re = re + cr.frac(a) * (fre * cos(phi) - fim * sin(phi)); im = im + cr.frac(a) * (fre * sin(phi) + fim * cos(phi))
    pre = And(cr.n == n, Not(qerr))
    good = And(pre, flags_ok, zok, avail) if n else pre
    from vlib.irsym import resolve_arrays
    def partitions(items):
        if not items: yield []; return
        first, rest = items[0], items[1:]
        for p in partitions(rest):
            for k in range(len(p)): yield p[:k] + [[first] + p[k]] + p[k + 1:]
            yield [[first]] + p
    concl = And(r.rv[0] == re, r.rv[1] == im, Not(r.errset), r.overwrites == 0)
    # case split done here: which atoms share an element (the per-element cache is a local array indexed by Z) and the flag values
    for part in partitions(list(range(n))):
        reps = [min(c) for c in part]
        subs = [(Zs[m], Zs[min(c)]) for c in part for m in c if m != min(c)]
        eqs = [Zs[x] != Zs[y] for x in reps for y in reps if x < y]
        idx = [SignExt(32, Zs[x]) for x in reps]
        tagp = '-'.join(''.join(str(m) for m in sorted(c)) for c in sorted(part, key=min)) or 'none'
        for fv in ((a0, a1, a2) for a0 in (0, 1, 2) for a1 in (0, 2) for a2 in (0, 2)):
            prem = And(good, f0f == fv[0], fpf == fv[1], fppf == fv[2], *eqs)
            prem2 = z3.substitute(prem, *subs) if subs else prem
            conc2 = z3.substitute(concl, *subs) if subs else concl
            conc3 = resolve_arrays([conc2], idx)[0]
            cl.add('C13/F/n%d/value/%s/f%d%d%d' % (n, tagp, fv[0], fv[1], fv[2]), ev, prem2, conc3,
                   'F_H = sum_atoms occupancy x (f0-part + f\' + i f\'\') x exp(i 2 pi H.r) with the atomic factors Atomic_Factors reports; %d atoms, '
                   'atoms sharing an element: %s, flags (%d,%d,%d)' % (n, tagp, fv[0], fv[1], fv[2]), functions=[fn], timeout=240, check_premise=(fv == (2, 2, 2)))
    failc = And(r.rv[0] == 0, r.rv[1] == 0, r.errset, r.sets_on_slot == 1, r.overwrites == 0)
    for part in partitions(list(range(n))):
        reps = [min(c) for c in part]
        subs = [(Zs[m], Zs[min(c)]) for c in part for m in c if m != min(c)]
        eqs = [Zs[x] != Zs[y] for x in reps for y in reps if x < y]
        idx = [SignExt(32, Zs[x]) for x in reps]
        tagp = '-'.join(''.join(str(m) for m in sorted(c)) for c in sorted(part, key=min)) or 'none'
        prem = And(pre, Not(good), *eqs)
        prem2 = z3.substitute(prem, *subs) if subs else prem
        conc3 = resolve_arrays([z3.substitute(failc, *subs) if subs else failc], idx)[0]
        cl.add('C13/F/n%d/fail/%s' % (n, tagp), ev, prem2, conc3,
               'invalid flag, invalid atomic number or unavailable atomic factor: (0,0) and exactly one error', functions=[fn], timeout=40, check_premise=(n > 0))
    if n == nlast:
        cl.add('C13/F/qfail', ev, qerr, And(r.rv[0] == 0, r.rv[1] == 0, r.errset, r.sets_on_slot == 1, r.overwrites == 0), 'a failing scattering amplitude is propagated', functions=[fn])
        r0 = ev.call(fn, args, errslot=False)
        cl.add('C13/F/qfail-noslot', ev, qerr, And(r0.rv[0] == 0, r0.rv[1] == 0), 'error == NULL: a failing scattering amplitude is still noticed ((0,0) is returned, as with a slot)', functions=[fn])
        rn = ev.call(fn, [P.null()] + args[1:])
        cl.add('C13/F/null', ev, BoolVal(True), And(rn.rv[0] == 0, rn.rv[1] == 0, rn.errset, rn.sets_on_slot == 1), 'NULL crystal: error (also for (0,0,0))', functions=[fn])
        rec = []
        def partial_stub(ev_, st, a_, ins): rec.append(a_); return [Real('stub_re'), Real('stub_im')]
        evf = Eval(mod, prims={'Crystal_F_H_StructureFactor_Partial': Prim(kind='custom', post=partial_stub)})
        full = evf.call('Crystal_F_H_StructureFactor', [cr.ptr, E, i, j, k, D, rel])
        okargs = len(rec) == 1 and all((x.eq(y) if hasattr(x, 'eq') else x is y) for x, y in zip(rec[0][1:7], [E, i, j, k, D, rel])) and rec[0][0] is cr.ptr
        from vlib.irsym import conc
        flags222 = len(rec) == 1 and [conc(v) for v in rec[0][7:10]] == [2, 2, 2]
        cl.add('C13/F/full', evf, BoolVal(True), And(BoolVal(bool(okargs and flags222)), full.rv[0] == Real('stub_re'), full.rv[1] == Real('stub_im')),
               'Crystal_F_H_StructureFactor = the partial function with the same arguments and all three terms switched on (2,2,2)', functions=['Crystal_F_H_StructureFactor'])
        # additivity in the three flags and Friedel's law, on the reference form proved above
        def ref(f0v, fpv, fppv, sgn):
            rr = RealVal(0); ii = RealVal(0)
            for a in range(n):
                z = Zs[a]
                fre = (F0(z) if f0v else RealVal(0)) + (FP(z) if fpv else RealVal(0)); fim = FPP(z) if fppv else RealVal(0)
                phi = TWOPI * (I * cr.x(a) + J * cr.y(a) + K * cr.z(a))
                c_, s_ = cos(phi), sgn * sin(phi)      # sgn = -1: Miller indices inverted (cos even, sin odd: imported parity)
                rr = rr + cr.frac(a) * (fre * c_ - fim * s_); ii = ii + cr.frac(a) * (fre * s_ + fim * c_)
            return rr, ii
        a1, b1 = ref(1, 1, 1, 1); parts = [ref(1, 0, 0, 1), ref(0, 1, 0, 1), ref(0, 0, 1, 1)]
        cl.add('C13/F/additive', ev, BoolVal(True), And(a1 == sum([p[0] for p in parts], RealVal(0)), b1 == sum([p[1] for p in parts], RealVal(0))),
               'F(2,2,2) = F(2,0,0) + F(0,2,0) + F(0,0,2) (on the proved reference form)', functions=[fn])
        p, qq = ref(1, 1, 0, 1); pm, qm = ref(1, 1, 0, -1)
        cl.add('C13/F/friedel', ev, BoolVal(True), And(pm == p, qm == -qq), 'Friedel: with f\'\' switched off F(-H) is the complex conjugate of F(H) (parity of sin/cos imported)', functions=[fn])
    if n == 2:
        # (0,0,0): sum occupancy x Z x Debye factor, using FF_Rayl(Z, 0) = Z (C02) and Q(0,0,0) = 0
        pass
    cl.side_obligations('C13/F/n%d/side' % n, ev, functions=[fn], assume=cr.n == n)


def b_complex(cl, mod, H):
    """the two exported complex helpers (deprecated API, still exported)"""
    ev = Eval(mod)
    a, b, c, d = Real('x_re'), Real('x_im'), Real('y_re'), Real('y_im')
    r = ev.call('c_abs', [a, b], errslot=None)
    cl.add('C13/complex/abs', ev, BoolVal(True), And(r.rv >= 0, r.rv * r.rv == a * a + b * b), 'c_abs(x) is the non-negative root of re^2 + im^2', functions=['c_abs'])
    m = ev.call('c_mul', [a, b, c, d], errslot=None)
    cl.add('C13/complex/mul', ev, BoolVal(True), And(m.rv[0] == a * c - b * d, m.rv[1] == a * d + b * c), 'c_mul(x, y) = (x.re y.re - x.im y.im, x.re y.im + x.im y.re)', functions=['c_mul'])
    cl.side_obligations('C13/complex/side', ev, functions=['c_abs', 'c_mul'])


def check(run):
    H = macros(run)
    run.assumptions += ['real arithmetic for double (DESIGN.md §2.3); sin/cos/asin/sqrt uninterpreted with sin^2+cos^2 = 1 for the cell angles, sqrt(x)^2 = x, sin(asin u) = u',
                        'user crystal with arbitrary fields; at most 2 atoms (quick) / %d atoms (thorough); |Miller indices| <= 64, |n| <= 64 so that products do not wrap' % NMAX,
                        'valid cells: a,b,c,V > 0, positive reciprocal quadratic form and Gram determinant (DL2 for the built-in crystals)',
                        'FF_Rayl/Fi/Fii/Q_scattering_amplitude uninterpreted (own contracts: C02, above)']
    mod = bcheck.load_units(run, ['crystal_diffraction.c'])
    groups = [('C13/geometry', lambda cl: b_geometry(cl, mod, H), ()), ('C13/bragg', lambda cl: b_bragg(cl, mod, H), ()),
              ('C13/atomic', lambda cl: b_atomic(cl, mod, H), ())]
    # quick: crystals of up to 2 atoms (same / different element: both states of the per-element cache); thorough: up to 3
    nmax = NMAX if run.tier == 'thorough' else 2
    for n in range(0, nmax + 1):
        groups.append(('C13/F/n%d' % n, (lambda cl, n=n: b_structure(cl, mod, H, n, nmax)), ()))
    groups.append(('C13/complex', lambda cl: b_complex(cl, mod, H), ()))
    bcheck.run_groups(run, groups)
