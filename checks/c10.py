# C10 — grouped line energies and rates are the stated averages of their member lines (DESIGN.md §C10)
import re, z3
from z3 import BitVec, BitVecVal, SignExt, And, Or, Not, Implies, If, RealVal, BoolVal
from vlib import bcheck
from vlib.headers import macros
from vlib.irsym import Eval, Prim, dbl

# IUPAC Table VIII.2 (Siegbahn <-> IUPAC), the independent oracle for the alias macros of xraylib.h.
# KA3 (K-L1) is xraylib's own extension; LE and LH both denote L-eta.
SIEGBAHN = {'KA1': 'KL3', 'KA2': 'KL2', 'KA3': 'KL1', 'KB1': 'KM3', 'KB2': 'KN3', 'KB3': 'KM2', 'KB4': 'KN5', 'KB5': 'KM5',
            'LA1': 'L3M5', 'LA2': 'L3M4', 'LB1': 'L2M4', 'LB2': 'L3N5', 'LB3': 'L1M3', 'LB4': 'L1M2', 'LB5': 'L3O45',
            'LB6': 'L3N1', 'LB7': 'L3O1', 'LB9': 'L1M5', 'LB10': 'L1M4', 'LB15': 'L3N4', 'LB17': 'L2M3', 'LG1': 'L2N4',
            'LG2': 'L1N2', 'LG3': 'L1N3', 'LG4': 'L1O3', 'LG5': 'L2N1', 'LG6': 'L2O4', 'LG8': 'L2O1', 'LE': 'L2M1',
            'LH': 'L2M1', 'LL': 'L3M1', 'LS': 'L3M3', 'LT': 'L3M2', 'LU': 'L3N6', 'LV': 'L2N6', 'MA1': 'M5N7',
            'MA2': 'M5N6', 'MB': 'M4N6', 'MG': 'M3N5'}
# documented members of the L-beta group: (line, excited sub-shell)
LB_MEMBERS = [('LB1', 'L2'), ('LB2', 'L3'), ('LB3', 'L1'), ('LB4', 'L1'), ('LB5', 'L3'), ('LB6', 'L3'), ('LB7', 'L3'),
              ('LB9', 'L1'), ('LB10', 'L1'), ('LB15', 'L3'), ('LB17', 'L2'), ('L3N6', 'L3'), ('L3N7', 'L3')]
DOUBLETS = ['L1N67', 'L1O45', 'L1P23', 'L2P23', 'L3O45', 'L3P23', 'L3P45']


def split_doublet(name):
    """'L3P23' -> ('L3P2','L3P3'): members read off the macro's own name"""
    return name[:-1], name[:-2] + name[-1]


def b_energy(cl, mod, H, which):
    ev = Eval(mod, prims={'EdgeEnergy': Prim(), 'CS_FluorLine': Prim()})
    Z = BitVec('Z', 32); line = BitVec('line', 32)
    r = ev.call('LineEnergy', [Z, line])
    S = z3.BitVecSort(64)
    LE = ev.uf('LineEnergy_arr|3', [S] * 3, z3.RealSort()); RR = ev.uf('RadRate_arr|3', [S] * 3, z3.RealSort())
    E = lambda nm: LE(BitVecVal(0, 64), SignExt(32, Z), BitVecVal(-H[nm + '_LINE'] - 1, 64))
    R = lambda nm: RR(BitVecVal(0, 64), SignExt(32, Z), BitVecVal(-H[nm + '_LINE'] - 1, 64))
    zin = And(Z >= 1, Z <= H['ZMAX'])
    from vlib.headers import iupac_lines
    inv2name = {v: n for n, v in iupac_lines(H).items()}
    fns = ['LineEnergy', 'LineEnergyComposed', 'RadRate']
    okfail = lambda val: And(r.rv == val, Not(r.errset), r.overwrites == 0)
    fail = And(r.rv == 0, r.errset, r.sets_on_slot == 1, r.errcode() == 1, r.overwrites == 0)
    # representation invariant (DL2): cells are >= 0
    members_all = sorted(set(inv2name.values()))
    nonneg = lambda names: And(*[And(E(n) >= 0, R(n) >= 0) for n in names])

    def mean_claims(tag, macro, names, assume_rate_implies_energy):
        """rate-weighted mean over the members that have an energy (flat guarded sums)"""
        num = RealVal(0); den = RealVal(0)
        for n in names:
            num = num + If(E(n) > 0, E(n) * R(n), 0); den = den + If(E(n) > 0, R(n), 0)
        pre = And(zin, line == H[macro], nonneg(names))
        cl.add('C10/%s/value' % tag, ev, And(pre, den > 0), okfail(num / den),
               '%s energy = sum(E_i r_i)/sum(r_i) over its members %s that have an energy' % (macro, names), functions=fns)
        cl.add('C10/%s/fail' % tag, ev, And(pre, Not(den > 0)), fail, '%s: error when no member has rate and energy' % macro, functions=fns)
        if len(names) <= 3:
            es = [E(n) for n in names]
            cl.add('C10/%s/between' % tag, ev, And(pre, den > 0),
                   And(Or(*[And(e > 0, r.rv >= e) for e in es]), Or(*[r.rv <= e for e in es])),
                   '%s lies between its smallest and largest member energy' % macro, functions=fns)

    if which == 'KA':
        mean_claims('KA', 'KA_LINE', ['KL1', 'KL2', 'KL3'], True)
    if which == 'KB':
        names = [n for n in members_all if re.fullmatch(r'K[MNOP]\d?', n) and n not in ('KO', 'KP')]
        # the KO / KP group slots carry the rate of the whole K-O / K-P group (radrate.dat) and take the energy that the
        # public API reports for them, i.e. that of their first member (KO1 / KP1)
        # flat guarded sums: a member contributes iff it has an energy
        num = RealVal(0); den = RealVal(0)
        for n in names + ['KO', 'KP']:
            en = E({'KO': 'KO1', 'KP': 'KP1'}.get(n, n))
            num = num + If(en > 0, en * R(n), 0); den = den + If(en > 0, R(n), 0)
        allm = names + ['KO', 'KP']
        pre = And(zin, line == H['KB_LINE'], nonneg(allm))
        cl.add('C10/KB/value', ev, And(pre, den > 0), okfail(num / den),
               'KB energy = rate-weighted mean over the K-M, K-N, K-O, K-P members (%d lines + the KO/KP group rates at the '
               'KO1/KP1 energy), counting only members that have an energy' % len(names), functions=fns, timeout=120)
        cl.add('C10/KB/fail', ev, And(pre, Not(den > 0)), fail, 'KB: error when no member has rate and energy', functions=fns)
    if which == 'doublets':
        for d in DOUBLETS + ['LA']:
            a, b = ('L3M4', 'L3M5') if d == 'LA' else split_doublet(d)
            macro = d + '_LINE'
            pre = And(zin, line == H[macro], nonneg([a, b]), Implies(R(a) > 0, E(a) > 0), Implies(R(b) > 0, E(b) > 0))
            num = E(a) * R(a) + E(b) * R(b)
            cnt = If(E(a) > 0, 1, 0) + If(E(b) > 0, 1, 0)
            # two cases, one claim each (a single claim with a nested If made z3's answer time depend on machine load)
            cl.add('C10/%s/value' % d, ev, And(pre, num > 0), okfail(num / (R(a) + R(b))),
                   '%s = (E1 r1 + E2 r2)/(r1+r2) over members (%s,%s) read off the macro name, when a rate exists' % (macro, a, b), functions=fns)
            cl.add('C10/%s/plain' % d, ev, And(pre, Not(num > 0), E(a) + E(b) > 0), okfail((E(a) + E(b)) / cnt),
                   '%s = plain mean of the members that have an energy when no rate exists' % macro, functions=fns)
            # no data assumption here: whatever the rates are (105 <= Z <= 109 have L3-M rates but no energies), no energy => error, never a silent 0.0
            cl.add('C10/%s/fail' % d, ev, And(zin, line == H[macro], nonneg([a, b]), Not(E(a) + E(b) > 0)), fail, '%s: error when no member has an energy (whatever the rates)' % macro, functions=fns)
            cl.add('C10/%s/between' % d, ev, And(pre, E(a) + E(b) > 0),
                   And(Or(And(E(a) > 0, r.rv >= E(a)), And(E(b) > 0, r.rv >= E(b))), Or(r.rv <= E(a), r.rv <= E(b))),
                   '%s lies between its smallest and largest member energy' % macro, functions=fns)
    if which == 'LB':
        CSF = ev.uf('CS_FluorLine', [z3.BitVecSort(32), z3.BitVecSort(32), z3.RealSort()], z3.RealSort())
        EE = ev.uf('EdgeEnergy', [z3.BitVecSort(32), z3.BitVecSort(32)], z3.RealSort())
        terms = []
        for ln, sh in LB_MEMBERS:
            lm = H[ln + '_LINE']; iup = inv2name[lm] if lm in inv2name else None
            sig = CSF(Z, BitVecVal(lm, 32), EE(Z, BitVecVal(H[sh + '_SHELL'], 32)) + dbl(0.1))
            # member energy as the public API reports it (LB5 = L3O45 is itself a doublet)
            terms.append((ln, lm, sig))
        # energies of the members through the same evaluator (public LineEnergy on the member macro)
        evm = ev
        num = RealVal(0); den = RealVal(0)
        for ln, lm, sig in terms:
            em = evm.call('LineEnergy', [Z, BitVecVal(lm, 32)], errslot=False).rv
            num = num + em * sig; den = den + sig
        pre = And(zin, line == H['LB_LINE'])
        cl.add('C10/LB/value', ev, And(pre, den > 0), okfail(num / den),
               'LB energy = sum(E_i sigma_i)/sum(sigma_i), sigma_i = CS_FluorLine(Z, line_i, edge(shell_i)+0.1) over the 13 documented members',
               functions=fns + ['(prims) CS_FluorLine, EdgeEnergy'], timeout=120)
        cl.add('C10/LB/fail', ev, And(pre, Not(den > 0)), fail, 'LB: error when no member line has a cross section', functions=fns)
    if which == 'KOKP':
        for g, m in (('KO', 'KO1'), ('KP', 'KP1')):
            pre = And(zin, line == H[g + '_LINE'])
            cl.add('C10/%s/value' % g, ev, And(pre, E(m) > 0), okfail(E(m)), '%s energy is that of its first member %s' % (g, m), functions=fns)
            cl.add('C10/%s/fail' % g, ev, And(pre, Not(E(m) > 0)), fail, '%s: error when %s has no energy' % (g, m), functions=fns)
        cl.side_obligations('C10/LineEnergy/side', ev, functions=fns)


def b_rates(cl, mod, H):
    ev = Eval(mod)
    Z = BitVec('Z', 32); line = BitVec('line', 32)
    r = ev.call('RadRate', [Z, line]); r0 = ev.call('RadRate', [Z, line], errslot=False)
    S = z3.BitVecSort(64)
    RR = ev.uf('RadRate_arr|3', [S] * 3, z3.RealSort())
    R = lambda nm: RR(BitVecVal(0, 64), SignExt(32, Z), BitVecVal(-H[nm + '_LINE'] - 1, 64))
    zin = And(Z >= 1, Z <= H['ZMAX'])
    ok = lambda val: And(r.rv == val, Not(r.errset), r.overwrites == 0)
    fail = And(r.rv == 0, r.errset, r.sets_on_slot == 1, r.errcode() == 1, r.overwrites == 0)
    ka = R('KL1') + R('KL2') + R('KL3')
    nn = And(R('KL1') >= 0, R('KL2') >= 0, R('KL3') >= 0, R('L3M4') >= 0, R('L3M5') >= 0)
    fns = ['RadRate']
    cl.add('C10/rate/KA', ev, And(zin, nn, line == H['KA_LINE']), If(ka > 0, ok(ka), fail), 'KA rate = KL1+KL2+KL3, error when 0', functions=fns)
    cl.add('C10/rate/KB', ev, And(zin, nn, line == H['KB_LINE']), If(And(ka > 0, ka != 1), ok(1 - ka), fail),
           'KB rate = 1 - KA rate; error when the KA rate is 0 or 1', functions=fns)
    la = R('L3M4') + R('L3M5')
    cl.add('C10/rate/LA', ev, And(zin, nn, line == H['LA_LINE']), If(la > 0, ok(la), fail), 'LA rate = L3M4+L3M5, error when 0', functions=fns)
    cl.add('C10/rate/LB', ev, And(zin, line == H['LB_LINE']), fail, 'LB rate is an error', functions=fns)
    cl.add('C10/rate/Zrange', ev, Not(zin), fail, 'Z outside 1..ZMAX is an error for every line macro', functions=fns)
    cl.add('C10/rate/noslot', ev, BoolVal(True), r0.rv == r.rv, 'error==NULL returns the same value', functions=fns)
    cl.side_obligations('C10/rate/side', ev, functions=fns)


def siegbahn(run, H):
    """alias macros of xraylib.h vs the IUPAC table: constants, compared directly (closed fact, no quantifier)"""
    from vlib import core
    ob = core.Ob('C10/aliases', 'direct', ['xraylib.h Siegbahn alias macros'], 'closed: %d constants' % len(SIEGBAHN),
                 'each single-line Siegbahn alias evaluates to the IUPAC transition of Table VIII.2')
    bad = []
    for s, i in SIEGBAHN.items():
        if H.get(s + '_LINE') != H.get(i + '_LINE') or H.get(s + '_LINE') is None: bad.append((s, i))
    declared = [k[:-5] for k in H if k.endswith('_LINE') and re.fullmatch(r'(K[AB]\d|L[ABG]\d+|L[EHLSTUV]|M[ABG]\d?)', k[:-5])]
    missing = [d for d in declared if d not in SIEGBAHN]
    ob.queries = len(SIEGBAHN); ob.nprops = len(SIEGBAHN); ob.witness = True
    if bad or missing:
        ob.status = 'fail'
        for s, i in bad: ob.failures.append(dict(key='C10/aliases|%s' % s, desc='%s_LINE is not %s_LINE' % (s, i), loc='xraylib.h', inputs={}))
        for d in missing: ob.failures.append(dict(key='C10/aliases|unknown %s' % d, desc='alias %s_LINE not in the oracle table' % d, loc='xraylib.h', inputs={}))
    else: ob.status = 'pass'
    run.add_ob(ob)


def check(run):
    H = macros(run)
    mod = bcheck.load_units(run, ['fluor_lines.c', 'radrate.c'])
    run.assumptions += ['real arithmetic for double (DESIGN.md §2.3): identities are equalities of real-valued expressions',
                        'table cells >= 0; for KA and the doublets: a member with a rate also has an energy (DL2 on shipped data)',
                        'EdgeEnergy and CS_FluorLine are uninterpreted non-negative functions in the LB claim']
    groups = [('C10/energy/' + w, (lambda cl, w=w: b_energy(cl, mod, H, w)), ()) for w in ('KA', 'KB', 'doublets', 'LB', 'KOKP')]
    groups.append(('C10/rates', (lambda cl: b_rates(cl, mod, H)), ()))
    bcheck.run_groups(run, groups)
    siegbahn(run, H)
