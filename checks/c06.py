# C06 — compound quantities follow the mass-fraction mixture rule (DESIGN.md §C06)
import z3
from z3 import BitVec, BitVecVal, SignExt, And, Or, Not, Implies, If, RealVal, BoolVal, Real, Bool, IntVal
from vlib import bcheck
from vlib.headers import macros
from vlib.irsym import Eval, Prim, dbl, P, key_of

S32 = z3.BitVecSort(32); S64 = z3.BitVecSort(64); R = z3.RealSort()
NMAX = 3
CP_F = ['CS_Total', 'CS_Photo', 'CS_Rayl', 'CS_Compt', 'CSb_Total', 'CSb_Photo', 'CSb_Rayl', 'CSb_Compt', 'CS_Energy',
        'CS_Photo_Total', 'CSb_Photo_Total', 'CS_Total_Kissel', 'CSb_Total_Kissel']
CP_FF = ['DCS_Rayl', 'DCS_Compt', 'DCSb_Rayl', 'DCSb_Compt']
CP_FFF = ['DCSP_Rayl', 'DCSP_Compt', 'DCSPb_Rayl', 'DCSPb_Compt']


class Comp:
    """symbolic outcome of CompoundParser / GetCompoundDataNISTByName: NULL or a composition of n <= NMAX elements"""
    def __init__(self, ev, H):
        self.ev = ev
        self.cd_ok = Bool('formula_parses'); self.cdn_ok = Bool('is_nist_compound')
        ev.nonnull_roots = ('h:cd', 'h:cdn')
        B = lambda v: BitVecVal(v, 64)
        # field readers (the same uninterpreted functions the evaluator creates for loads from the returned objects)
        self.n = {'cd': ev.uf('cd|2', [S64] * 2, S32)(B(0), B(0)), 'cdn': ev.uf('cdn|2', [S64] * 2, S32)(B(0), B(1))}
        self.Zi = {'cd': lambda i: ev.uf('cd|2|1', [S64] * 3, S32)(B(0), B(2), B(i)), 'cdn': lambda i: ev.uf('cdn|2|1', [S64] * 3, S32)(B(0), B(2), B(i))}
        self.wi = {'cd': lambda i: ev.uf('cd|2|1', [S64] * 3, R)(B(0), B(3), B(i)), 'cdn': lambda i: ev.uf('cdn|2|1', [S64] * 3, R)(B(0), B(3), B(i))}
        self.rho = ev.uf('cdn|2', [S64] * 2, R)(B(0), B(4))
        # contract of the two constructors (C07 / C15): 1 <= n (bounded here to NMAX), positive mass fractions
        for k in ('cd', 'cdn'):
            ev.axioms.append(And(self.n[k] >= 1, self.n[k] <= NMAX))
            for i in range(NMAX): ev.axioms.append(self.wi[k](i) > 0)
        def parser(ev_, st, args, ins):
            return P([(Not(self.cd_ok), None), (self.cd_ok, ('h:cd', (0,)))])
        def nist(ev_, st, args, ins):
            return P([(Not(self.cdn_ok), None), (self.cdn_ok, ('h:cdn', (0,)))])
        def free(which):
            def f(ev_, st, args, ins):
                p = args[0]
                for g, t in p.alts:
                    if t is None: continue
                    k = ('free', t[0]); st.cnt[k] = st.cnt.get(k, IntVal(0)) + If(g, 1, 0)
                return None
            return f
        self.prims = {'CompoundParser': Prim(kind='custom', post=parser), 'GetCompoundDataNISTByName': Prim(kind='custom', post=nist),
                      'FreeCompoundData': Prim(kind='custom', post=free('cd')), 'FreeCompoundDataNIST': Prim(kind='custom', post=free('cdn'))}
    def which(self):
        """(case condition, key) in the order the library must try them"""
        return [(self.cd_ok, 'cd'), (And(Not(self.cd_ok), self.cdn_ok), 'cdn')]
    def frees(self, r):
        fc = r.st.cnt.get(('free', 'h:cd'), IntVal(0)); fn = r.st.cnt.get(('free', 'h:cdn'), IntVal(0))
        return And(fc == If(self.cd_ok, 1, 0), fn == If(And(Not(self.cd_ok), self.cdn_ok), 1, 0))


def b_cp(cl, mod, H, fn, extra):
    name = fn + '_CP'
    ev = Eval(mod, unroll=NMAX + 1)
    comp = Comp(ev, H)
    ev.prims = dict(comp.prims); ev.prims[fn] = Prim()
    E = Real('E'); th = Real('theta'); ph = Real('phi')
    tail = [E, th, ph][:1 + extra]
    cstr = P.to('h:compound_string', (0,))
    r = ev.call(name, [cstr] + tail); r0 = ev.call(name, [cstr] + tail, errslot=False)
    F = ev.uf(fn, [S32] + [R] * len(tail), R)
    fail = And(r.rv == 0, r.errset, r.sets_on_slot == 1, r.overwrites == 0)
    for cond, k in comp.which():
        for n in range(1, NMAX + 1):
            terms = [F(comp.Zi[k](i), *tail) * comp.wi[k](i) for i in range(n)]
            allok = And(*[F(comp.Zi[k](i), *tail) > 0 for i in range(n)])
            pre = And(cond, comp.n[k] == n)
            cl.add('C06/%s/%s/n%d/value' % (name, k, n), ev, And(pre, allok), And(r.rv == sum(terms, RealVal(0)), Not(r.errset), r.overwrites == 0),
                   '%s = sum_i massFraction_i x %s(Z_i, same trailing arguments) for a %s composition of %d elements' % (name, fn, 'formula' if k == 'cd' else 'NIST', n), functions=[name])
            cl.add('C06/%s/%s/n%d/fail' % (name, k, n), ev, And(pre, Not(allok)), fail,
                   'an element for which %s fails makes the compound call fail (0.0 + one error), no partial sum' % fn, functions=[name])
    cl.add('C06/%s/unknown' % name, ev, And(Not(comp.cd_ok), Not(comp.cdn_ok)), And(fail, r.errcode() == 1), 'neither a formula nor a NIST compound: INVALID_ARGUMENT error', functions=[name])
    cl.add('C06/%s/ownership' % name, ev, BoolVal(True), comp.frees(r), 'the composition object is released exactly once on every path (formula first, NIST second)', functions=[name])
    cl.add('C06/%s/noslot' % name, ev, BoolVal(True), r0.rv == r.rv, 'error==NULL: same value', functions=[name])
    cl.side_obligations('C06/%s/side' % name, ev, functions=[name])


def b_refr(cl, mod, H, fn):
    ev = Eval(mod, unroll=NMAX + 1)
    comp = Comp(ev, H)
    ev.prims = dict(comp.prims)
    ev.prims.update({'Fi': Prim(nonneg=False), 'AtomicWeight': Prim(), 'CS_Total': Prim()})
    E = Real('E'); rho = Real('density')
    cstr = P.to('h:compound_string', (0,))
    if fn == 'Refractive_Index2':
        res = P.to('h:result', (0,))
        st_args = [cstr, E, rho, res]
    else: st_args = [cstr, E, rho]
    r = ev.call(fn, st_args); r0 = ev.call(fn, st_args, errslot=False)
    FI = ev.uf('Fi', [S32, R], R); AW = ev.uf('AtomicWeight', [S32], R); CT = ev.uf('CS_Total', [S32, R], R)
    KD = dbl(4.15179082788e-4); KI = dbl(9.8663479e-9)
    def outs(res_):
        if fn == 'Refractive_Index': return res_.rv[0], res_.rv[1]
        if fn == 'Refractive_Index2':
            return res_.st.mem.get(('h:result', (0, 0))), res_.st.mem.get(('h:result', (0, 1)))
        if fn == 'Refractive_Index_Re': return res_.rv, None
        return None, res_.rv
    re_, im_ = outs(r); re0, im0 = outs(r0)
    fail_basic = And(r.errset, r.sets_on_slot == 1, r.overwrites == 0)
    zero = And(*[x == 0 for x in (re_, im_) if x is not None]) if fn != 'Refractive_Index2' else BoolVal(True)
    for cond, k in comp.which():
        rho_eff = rho if k == 'cd' else If(rho > 0, rho, comp.rho)
        for n in range(1, NMAX + 1):
            Zs = [comp.Zi[k](i) for i in range(n)]; ws = [comp.wi[k](i) for i in range(n)]
            delta = sum([ws[i] * KD * (ev.int2real(Zs[i]) + FI(Zs[i], E)) / AW(Zs[i]) / E / E for i in range(n)], RealVal(0))
            mu = sum([CT(Zs[i], E) * ws[i] for i in range(n)], RealVal(0))
            need = []
            if re_ is not None: need += [And(FI(Zs[i], E) != 0, AW(Zs[i]) > 0) for i in range(n)]
            if im_ is not None: need += [CT(Zs[i], E) > 0 for i in range(n)]
            pre = And(cond, comp.n[k] == n)
            good = And(rho_eff > 0, E > 0, *need)
            # real and imaginary part are separate claims (the conjunction of the two nonlinear identities was at the edge of the solver cap for n = 3)
            parts = [('value', re_, 1 - delta * rho_eff)] if re_ is not None else []
            if im_ is not None: parts.append(('value' if re_ is None else 'value-im', im_, mu * rho_eff * KI / E))
            for tag, got, want in parts:
                cl.add('C06/%s/%s/n%d/%s' % (fn, k, n, tag), ev, And(pre, good), And(Not(r.errset), r.overwrites == 0, got == want),
                       '%s: Re = 1 - rho sum w_i KD (Z_i + f\'_i)/A_i / E^2, Im = rho sum w_i mu_i x 9.8663479e-9 / E; user density wins, a NIST compound supplies '
                       'its own when density <= 0 (%s, %d elements)' % (fn, k, n), functions=[fn])
            cl.add('C06/%s/%s/n%d/fail' % (fn, k, n), ev, And(pre, Not(good)), And(fail_basic, zero),
                   'non-positive density (formula) / energy, or an element whose f\', atomic weight or mu is unavailable: error', functions=[fn])
    cl.add('C06/%s/unknown' % fn, ev, And(Not(comp.cd_ok), Not(comp.cdn_ok)), And(fail_basic, r.errcode() == 1, zero), 'unknown compound: INVALID_ARGUMENT', functions=[fn])
    cl.add('C06/%s/ownership' % fn, ev, BoolVal(True), comp.frees(r), 'the composition object is released exactly once on every path, failure paths included', functions=[fn])
    same = And(*[a == b for a, b in ((re_, re0), (im_, im0)) if a is not None])
    cl.add('C06/%s/noslot' % fn, ev, BoolVal(True), same, 'error==NULL: same value', functions=[fn])
    cl.side_obligations('C06/%s/side' % fn, ev, functions=[fn], assume=BoolVal(True))
    if fn == 'Refractive_Index':
        a = ev.call('Refractive_Index_Re', [cstr, E, rho], errslot=False); b = ev.call('Refractive_Index_Im', [cstr, E, rho], errslot=False)
        cl.add('C06/Refractive_Index/agree', ev, BoolVal(True), Implies(Not(r.errset), And(re_ == a.rv, im_ == b.rv)),
               'when the complex call succeeds its parts equal Refractive_Index_Re / _Im', functions=['Refractive_Index', 'Refractive_Index_Re', 'Refractive_Index_Im'])


def check(run):
    H = macros(run)
    run.assumptions += ['real arithmetic for double (DESIGN.md §2.3)',
                        'CompoundParser / GetCompoundDataNISTByName are stubs returning NULL or a composition of 1..%d elements with positive mass fractions (their own behaviour: C07, C15)' % NMAX,
                        'elemental functions uninterpreted, error iff 0 (Fi may be negative)', 'compositions with more than %d elements are outside the bound (loop body is uniform)' % NMAX]
    m1 = bcheck.load_units(run, ['cs_cp.c']); m2 = bcheck.load_units(run, ['refractive_indices.c'])
    groups = []
    for fn in CP_F: groups.append(('C06/' + fn + '_CP', (lambda cl, fn=fn: b_cp(cl, m1, H, fn, 0)), ()))
    for fn in CP_FF: groups.append(('C06/' + fn + '_CP', (lambda cl, fn=fn: b_cp(cl, m1, H, fn, 1)), ()))
    for fn in CP_FFF: groups.append(('C06/' + fn + '_CP', (lambda cl, fn=fn: b_cp(cl, m1, H, fn, 2)), ()))
    for fn in ('Refractive_Index_Re', 'Refractive_Index_Im', 'Refractive_Index', 'Refractive_Index2'):
        groups.append(('C06/' + fn, (lambda cl, fn=fn: b_refr(cl, m2, H, fn)), ()))
    bcheck.run_groups(run, groups)
