# Shared machinery for the cross-cutting properties C03 / C04 / C16 / C17:
#  * sweep(): runs the obligation groups of the per-topic checks and relabels them under the cross-cutting property
#  * coverage(): which exported function is decided by which obligations (from the CURRENT public headers)
#  * ir_frame_scan(): every store through / load from an object with static storage, and every call into process-global libc
#    state, in the LLVM IR of every library unit (the finite "what can be written at all" half of the frame argument)
import re, glob, os, importlib
from vlib import core, bcheck
from vlib.irsym import Module, parse_module, compile_ir

LIB_UNITS = ['atomiclevelwidth.c', 'atomicweight.c', 'auger_trans.c', 'comptonprofiles.c', 'coskron.c', 'cross_sections.c', 'crystal_diffraction.c', 'cs_barns.c',
             'cs_cp.c', 'cs_line.c', 'densities.c', 'edges.c', 'fi.c', 'fii.c', 'fluor_lines.c', 'fluor_yield.c', 'jump.c', 'kissel_pe.c', 'polarized.c', 'radrate.c',
             'refractive_indices.c', 'scattering.c', 'splint.c', 'xraylib-aux.c', 'xraylib-error.c', 'xraylib-nist-compounds.c', 'xraylib-parser.c',
             'xraylib-radionuclides.c', 'xrayvars.c', 'xrf_cross_sections_aux.c', 'xrayfiles_inline.c']

# per-topic checks whose obligations carry the error protocol / memory-safety side conditions / frame conditions of the functions they encode
TOPIC = {'quick': ['c05', 'c08', 'c12', 'c10', 'c01', 'c02', 'c06', 'c11', 'c07', 'c14', 'c15', 'c09', 'c13'], 'thorough': ['c05', 'c08', 'c12', 'c10', 'c01', 'c02', 'c06', 'c11', 'c07', 'c14', 'c15', 'c09', 'c13']}


def prototypes():
    protos = {}
    for f in sorted(glob.glob(os.path.join(core.REPO, 'include', '*.h'))):
        t = re.sub(r'/\*.*?\*/', '', open(f).read(), flags=re.S)
        for m in re.finditer(r'XRL_EXTERN\s+([^;{]+?)\s*\(([^;{]*?)\)\s*;', t, flags=re.S):
            decl = ' '.join(m.group(1).split()); name = decl.split()[-1].lstrip('*')
            if name != 'defined': protos[name] = (decl, ' '.join(m.group(2).split()), os.path.basename(f))
    return protos


def sweep(run, prop, keep=lambda oid: True, modules=None):
    """run the topic checks' obligations under property `prop`; returns list of (original id) kept"""
    mods = modules or TOPIC[run.tier if run.tier in TOPIC else 'quick']
    n0 = len(run.obs)
    run.keep_pred = keep          # obligations the filter drops are not even started (core.cbmc / bcheck.Claims consult it)
    for m in mods:
        mod = importlib.import_module('checks.' + m)
        before = len(run.obs)
        try:
            mod.check(run)
        except Exception as e:
            ob = core.Ob('%s/sweep/%s' % (prop, m), 'framework', [], '', 'sweep of ' + m); ob.reason = 'exception in %s: %r' % (m, e); run.add_ob(ob)
    run.keep_pred = None
    kept = []
    with run.lock:
        new = run.obs[n0:]; del run.obs[n0:]
        for ob in new:
            if keep(ob.id):
                ob.origin = ob.id
                ob.id = '%s/via-%s' % (prop, ob.id)
                for f in ob.failures: f['key'] = '%s|%s' % (ob.id, f['key'].split('|', 1)[1] if '|' in f['key'] else f['key'])
                run.obs.append(ob); kept.append(ob)
    return kept


def coverage(run, obs):
    """exported function -> ids of the obligations that name it among the functions they encode"""
    protos = prototypes(); cov = {n: [] for n in protos}
    for ob in obs:
        names = set()
        for f in ob.functions or []:
            for tok in re.findall(r'[A-Za-z_][A-Za-z0-9_]*', f): names.add(tok)
        for tok in re.findall(r'[A-Za-z_][A-Za-z0-9_]*', ob.id): names.add(tok)
        for n in names:
            if n in cov: cov[n].append(ob.id)
    return cov


LIBC_GLOBAL_STATE = {'setlocale': 'process-global numeric locale', 'srand': 'global PRNG', 'rand': 'global PRNG', 'chdir': 'working directory', 'strtok': 'static tokenizer state',
                     'getenv': 'environment', 'setenv': 'environment', 'putenv': 'environment', 'strerror': 'static message buffer (read-only use)', 'localeconv': 'locale', 'tmpnam': 'static buffer'}


# libc routines that store through a pointer argument (index of the destination argument)
LIBC_WRITERS = {'sprintf': (0,), 'snprintf': (0,), 'vsprintf': (0,), 'vsnprintf': (0,), 'strcpy': (0,), 'strncpy': (0,), 'strcat': (0,), 'strncat': (0,), 'stpcpy': (0,),
                'memcpy': (0,), 'memmove': (0,), 'memset': (0,), 'llvm.memcpy.p0i8.p0i8.i64': (0,), 'llvm.memset.p0i8.i64': (0,), 'llvm.memmove.p0i8.p0i8.i64': (0,),
                'fgets': (0,), 'fread': (0,), 'gets': (0,), 'strtok_r': (2,), 'sscanf': (2, 3, 4, 5), 'fscanf': (2, 3, 4, 5), 'getline': (0, 1), 'qsort': (0,)}


def ir_frame_scan(run):
    """returns list of findings: dict(kind, function, unit, target, detail)"""
    inc = bcheck.clang_incs(run); out = []
    for u in LIB_UNITS:
        path = run.src(u)
        if not os.path.exists(path): continue
        try:
            mod = parse_module(compile_ir(path, inc), Module())
        except Exception as e:
            out.append(dict(kind='unparsed', function='-', unit=u, target='-', detail=str(e)[:200])); continue
        def root(c, env):
            # syntactic root of a pointer operand: global name, or local defined by gep/bitcast of a global
            seen = 0
            while c is not None and seen < 20:
                seen += 1
                if c.kind == 'global': return c.name
                if c.kind == 'gep': c = c.base; continue
                if c.kind == 'cast': c = c.v; continue
                if c.kind == 'local':
                    d = env.get(c.name)
                    if d is None: return None
                    if d.op == 'getelementptr': c = d.base; continue
                    if d.op == 'bitcast': c = d.a; continue
                    if d.op == 'select' or d.op == 'phi': return None
                    return None
                return None
            return None
        for fn in mod.funcs.values():
            env = {}
            for b in fn.order:
                for ins in fn.blocks[b]:
                    if ins.res: env[ins.res] = ins
            for b in fn.order:
                for ins in fn.blocks[b]:
                    if ins.op == 'store':
                        g = root(ins.p, env)
                        if g is not None and g in mod.globals: out.append(dict(kind='write-static', function=fn.name, unit=u, target=g, detail=ins.text[:100]))
                    elif ins.op == 'load':
                        g = root(ins.p, env)
                        if g is not None and g in mod.globals:
                            gl = mod.globals[g]
                            if not gl['const'] and not gl['ext'] and gl['init'] is not None:
                                out.append(dict(kind='read-mutable-static', function=fn.name, unit=u, target=g, detail=ins.text[:100]))
                    elif ins.op in ('call', 'invoke') and ins.callee.kind == 'global' and ins.callee.name in LIBC_GLOBAL_STATE:
                        out.append(dict(kind='libc-global-state', function=fn.name, unit=u, target=ins.callee.name, detail=LIBC_GLOBAL_STATE[ins.callee.name]))
                    elif ins.op in ('call', 'invoke') and ins.callee.kind == 'global' and ins.callee.name.replace('__', '').replace('_chk', '') in LIBC_WRITERS:
                        # a libc routine that writes through its destination argument: the destination must not have static storage
                        cal = ins.callee.name.replace('__', '').replace('_chk', '')
                        for ai in LIBC_WRITERS[cal]:
                            if ai < len(ins.args):
                                g = root(ins.args[ai][1], env)
                                if g is not None and g in mod.globals and not mod.globals[g]['const']:
                                    out.append(dict(kind='write-static', function=fn.name, unit=u, target=g, detail='%s writes through argument %d' % (ins.callee.name, ai)))
    return out


def error_api(run, prefix):
    srcs = [run.harness('c03_error.c'), run.src('xraylib-error.c'), run.src('xraylib-aux.c')]
    fns = ['xrl_error_new', 'xrl_error_new_literal', 'xrl_set_error', 'xrl_set_error_literal', 'xrl_propagate_error', 'xrl_clear_error', 'xrl_error_copy', 'xrl_error_matches', 'xrl_error_free']
    return [lambda: run.cbmc(prefix + '/error-api', srcs, 'harness_error_api', unwind=10, backends=('cadical', 'kissat'), functions=fns, leak=True, defines=('VH_REAL_STRDUP', 'VH_STRMAX=8'),
                             bounds='messages of up to 7 bytes; every error code; empty / occupied / absent slot',
                             what='the error module: set on an empty slot stores exactly one error with that code and message; an occupied slot is never overwritten; NULL slot is a no-op; propagate moves ownership; clear/free release everything; copy is deep')]
