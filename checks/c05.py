# C05 — totals, per-atom and differential cross sections obey their defining identities (DESIGN.md §C05)
import z3
from z3 import BitVec, BitVecVal, SignExt, And, Or, Not, Implies, If, RealVal, BoolVal, Real
from vlib import bcheck
from vlib.headers import macros
from vlib.irsym import Eval, Prim, dbl

S32 = z3.BitVecSort(32); S64 = z3.BitVecSort(64); R = z3.RealSort()


def std(r):
    ok = lambda val: And(r.rv == val, Not(r.errset), r.overwrites == 0)
    fail = And(r.rv == 0, r.errset, r.sets_on_slot == 1, r.overwrites == 0)
    return ok, fail


def b_totals(cl, mod, H):
    """CS_Total = photo + Rayleigh + Compton, fails iff a part is undefined"""
    ev = Eval(mod, prims={p: Prim() for p in ('CS_Photo', 'CS_Rayl', 'CS_Compt')})
    Z = BitVec('Z', 32); E = Real('E')
    r = ev.call('CS_Total', [Z, E]); r0 = ev.call('CS_Total', [Z, E], errslot=False)
    ok, fail = std(r)
    P, Ry, C = [ev.uf(n, [S32, R], R)(Z, E) for n in ('CS_Photo', 'CS_Rayl', 'CS_Compt')]
    N = lambda t: ev.uf(t + '|2', [S64, S64], S32)(BitVecVal(0, 64), SignExt(32, Z))
    zin = And(Z >= 1, Z <= H['ZMAX'], N('NE_Photo') >= 0, N('NE_Rayl') >= 0, N('NE_Compt') >= 0, E > 0)
    fns = ['CS_Total']
    cl.add('C05/CS_Total/value', ev, And(zin, P > 0, Ry > 0, C > 0), ok(P + Ry + C), 'CS_Total = CS_Photo + CS_Rayl + CS_Compt', functions=fns)
    cl.add('C05/CS_Total/fail', ev, Not(And(zin, P > 0, Ry > 0, C > 0)), fail, 'any part undefined (or Z/E invalid): 0.0 + one error, no partial sum', functions=fns)
    cl.add('C05/CS_Total/noslot', ev, BoolVal(True), r0.rv == r.rv, 'error==NULL: same value', functions=fns)
    cl.side_obligations('C05/CS_Total/side', ev, functions=fns)


BARN = [('CSb_Total', 'CS_Total', 'ZE'), ('CSb_Photo', 'CS_Photo', 'ZE'), ('CSb_Rayl', 'CS_Rayl', 'ZE'), ('CSb_Compt', 'CS_Compt', 'ZE'),
        ('CSb_FluorLine', 'CS_FluorLine', 'ZiE'), ('CSb_FluorShell', 'CS_FluorShell', 'ZiE'), ('DCSb_Rayl', 'DCS_Rayl', 'ZEt'),
        ('DCSb_Compt', 'DCS_Compt', 'ZEt'), ('DCSPb_Rayl', 'DCSP_Rayl', 'ZEtp'), ('DCSPb_Compt', 'DCSP_Compt', 'ZEtp')]


def mkargs(sig):
    m = {'Z': BitVec('Z', 32), 'i': BitVec('m', 32), 'E': Real('E'), 't': Real('theta'), 'p': Real('phi')}
    return [m[c] for c in sig]


def b_barns(cl, mod, H):
    for bn, cn, sig in BARN:
        ev = Eval(mod, prims={cn: Prim(), 'AtomicWeight': Prim()})
        args = mkargs(sig); Z = args[0]
        r = ev.call(bn, args); r0 = ev.call(bn, args, errslot=False); ok, fail = std(r)
        cs = ev.uf(cn, [a.sort() for a in args], R)(*args); aw = ev.uf('AtomicWeight', [S32], R)(Z)
        cl.add('C05/barn/%s/value' % bn, ev, And(cs > 0, aw > 0), ok(cs * aw / dbl(H['AVOGNUM'])),
               '%s = %s x AtomicWeight(same Z) / AVOGNUM' % (bn, cn), functions=[bn])
        cl.add('C05/barn/%s/fail' % bn, ev, Not(And(cs > 0, aw > 0)), fail, '%s: cm2/g twin or atomic weight undefined -> 0.0 + one error' % bn, functions=[bn])
        cl.add('C05/barn/%s/noslot' % bn, ev, BoolVal(True), r0.rv == r.rv, 'error==NULL: same value', functions=[bn])
        cl.side_obligations('C05/barn/%s/side' % bn, ev, functions=[bn])


def trig(ev):
    sin = ev.uf('m_sin', [R], R); cos = ev.uf('m_cos', [R], R)
    return sin, cos


def b_dcs(cl, mod, H, pol):
    """DCS(P)_Rayl = N_A/A F(q)^2 Thomson; DCS(P)_Compt = N_A/A S(q) KN; q = MomentTransf(E, theta)"""
    AV = dbl(H['AVOGNUM']); RE2 = dbl(H['RE2']); MEC2 = dbl(H['MEC2']); K2A = dbl(H['KEV2ANGST'])
    for kind in ('Rayl', 'Compt'):
        fn = ('DCSP_' if pol else 'DCS_') + kind
        ev = Eval(mod, prims={'FF_Rayl': Prim(), 'SF_Compt': Prim(), 'AtomicWeight': Prim()})
        Z = BitVec('Z', 32); E = Real('E'); th = Real('theta'); ph = Real('phi')
        args = [Z, E, th] + ([ph] if pol else [])
        r = ev.call(fn, args); r0 = ev.call(fn, args, errslot=False); ok, fail = std(r)
        sin, cos = trig(ev)
        q = E / K2A * sin(th / 2)
        aw = ev.uf('AtomicWeight', [S32], R)(Z)
        c = cos(th); s = sin(th); cp = cos(ph)
        if kind == 'Rayl':
            prim = ev.uf('FF_Rayl', [S32, R], R)(Z, q)
            ang = RE2 * (1 - s * s * cp * cp) if pol else (RE2 / 2) * (1 + c * c)
            ref = AV / aw * prim * prim * ang
        else:
            prim = ev.uf('SF_Compt', [S32, R], R)(Z, q)
            t1 = (1 - c) * E / MEC2; t2 = 1 + t1
            if pol:
                k0k = 1 + (1 - c) * E / MEC2; kk0 = 1 / k0k
                ang = (RE2 / 2) * kk0 * kk0 * (kk0 + k0k - 2 * s * s * cp * cp)
            else:
                ang = (RE2 / 2) * (1 + c * c + t1 * t1 / t2) / t2 / t2
            ref = AV / aw * prim * ang
        zin = And(Z >= 1, Z <= H['ZMAX'], E > 0)
        # trig facts used: |cos| <= 1 (axiom of the evaluator); aw > 0 whenever the form factor exists (DL2 implication)
        good = And(zin, prim > 0, aw > 0)
        cl.add('C05/%s/value' % fn, ev, good, ok(ref),
               '%s = AVOGNUM/AtomicWeight(Z) x %s x %s factor, with the primitive taken at q = E/KEV2ANGST x sin(theta/2)' %
               (fn, 'FF_Rayl(Z,q)^2' if kind == 'Rayl' else 'SF_Compt(Z,q)', ('polarised ' if pol else '') + ('Thomson' if kind == 'Rayl' else 'Klein-Nishina')),
               functions=[fn, 'MomentTransf', 'DCS_Thoms', 'DCS_KN', 'DCSP_Thoms', 'DCSP_KN'])
        cl.add('C05/%s/fail' % fn, ev, And(aw > 0, Not(And(zin, prim > 0))), fail, '%s: Z/E invalid or the primitive fails -> 0.0 + one error' % fn, functions=[fn])
        cl.add('C05/%s/noslot' % fn, ev, BoolVal(True), r0.rv == r.rv, 'error==NULL: same value', functions=[fn])
        cl.side_obligations('C05/%s/side' % fn, ev, assume=Implies(And(zin, prim > 0), aw > 0), functions=[fn],
                            what='no division by zero etc., given DL2: form factor / scattering function present => atomic weight present')


def b_kissel_totals(cl, mod, H):
    AV = dbl(H['AVOGNUM'])
    # CS_Total_Kissel = CS_Photo_Total + CS_Rayl + CS_Compt
    ev = Eval(mod, prims={p: Prim() for p in ('CS_Photo_Total', 'CS_Rayl', 'CS_Compt')})
    Z = BitVec('Z', 32); E = Real('E')
    r = ev.call('CS_Total_Kissel', [Z, E]); ok, fail = std(r)
    P, Ry, C = [ev.uf(n, [S32, R], R)(Z, E) for n in ('CS_Photo_Total', 'CS_Rayl', 'CS_Compt')]
    N = lambda t: ev.uf(t + '|2', [S64, S64], S32)(BitVecVal(0, 64), SignExt(32, Z))
    zin = And(Z >= 1, Z <= H['ZMAX'], N('NE_Photo_Total_Kissel') >= 0, N('NE_Rayl') >= 0, N('NE_Compt') >= 0, E > 0)
    cl.add('C05/CS_Total_Kissel/value', ev, And(zin, P > 0, Ry > 0, C > 0), ok(P + Ry + C), 'CS_Total_Kissel = CS_Photo_Total + CS_Rayl + CS_Compt', functions=['CS_Total_Kissel'])
    cl.add('C05/CS_Total_Kissel/fail', ev, Not(And(zin, P > 0, Ry > 0, C > 0)), fail, 'a part undefined: 0.0 + one error', functions=['CS_Total_Kissel'])
    cl.side_obligations('C05/CS_Total_Kissel/side', ev, functions=['CS_Total_Kissel'])
    # CSb_Photo_Total = sum over occupied shells of occupancy x CSb_Photo_Partial
    ev = Eval(mod, prims={'CSb_Photo_Partial': Prim()})
    r = ev.call('CSb_Photo_Total', [Z, E]); ok, fail = std(r)
    EC = ev.uf('Electron_Config_Kissel|3', [S64] * 3, R); PP = ev.uf('CSb_Photo_Partial', [S32, S32, R], R)
    occ = [EC(BitVecVal(0, 64), SignExt(32, Z), BitVecVal(s, 64)) for s in range(H['SHELLNUM_K'])]
    tot = RealVal(0)   # running sum, term s added iff the sub-shell is occupied
    for s in range(H['SHELLNUM_K']):
        tot = If(occ[s] > dbl(1.0E-06), tot + PP(Z, BitVecVal(s, 32), E) * occ[s], tot)
    zin = And(Z >= 1, Z <= H['ZMAX'], N('NE_Photo_Total_Kissel') >= 0, E > 0)
    cl.add('C05/CSb_Photo_Total/value', ev, And(zin, tot > 0), ok(tot),
           'CSb_Photo_Total = sum over the %d sub-shells with occupancy > 1e-6 of occupancy x CSb_Photo_Partial' % H['SHELLNUM_K'], functions=['CSb_Photo_Total'])
    cl.add('C05/CSb_Photo_Total/fail', ev, Not(And(zin, tot > 0)), fail, 'sum is zero or Z/E invalid: 0.0 + one error', functions=['CSb_Photo_Total'])
    cl.side_obligations('C05/CSb_Photo_Total/side', ev, functions=['CSb_Photo_Total'])
    # unit twins that read AtomicWeight_arr[Z] directly
    AW = lambda ev: ev.uf('AtomicWeight_arr|2', [S64, S64], R)(BitVecVal(0, 64), SignExt(32, Z))
    for fn, prim, sig, form in (('CS_Photo_Total', 'CSb_Photo_Total', 'ZE', 'mul'), ('CSb_Total_Kissel', 'CS_Total_Kissel', 'ZE', 'div'),
                                ('CSb_FluorLine_Kissel', 'CS_FluorLine_Kissel_Cascade', 'ZiE', 'div'),
                                ('CSb_FluorShell_Kissel', 'CS_FluorShell_Kissel_Cascade', 'ZiE', 'div')):
        ev = Eval(mod, prims={prim: Prim()})
        args = mkargs(sig)
        r = ev.call(fn, args); ok, fail = std(r)
        cs = ev.uf(prim, [a.sort() for a in args], R)(*args); aw = AW(ev)
        # DL2: the primitive can only succeed for 1 <= Z <= ZMAX with a positive atomic weight
        dl = Implies(cs > 0, And(args[0] >= 1, args[0] <= H['ZMAX'], aw > 0))
        ref = cs * AV / aw if form == 'mul' else cs * aw / AV
        cl.add('C05/kissel/%s/value' % fn, ev, And(dl, cs > 0), ok(ref), '%s = %s %s AtomicWeight_arr[same Z] and AVOGNUM' % (fn, prim, 'x N_A /' if form == 'mul' else 'x A / N_A with'), functions=[fn])
        cl.add('C05/kissel/%s/fail' % fn, ev, And(dl, Not(cs > 0)), fail, '%s: twin undefined -> 0.0 + its error' % fn, functions=[fn])
        cl.side_obligations('C05/kissel/%s/side' % fn, ev, assume=dl, functions=[fn])
    # CS_Photo_Partial = CSb_Photo_Partial x occupancy x N_A / A
    ev = Eval(mod, prims={'CSb_Photo_Partial': Prim()})
    sh = BitVec('m', 32)
    r = ev.call('CS_Photo_Partial', [Z, sh, E]); ok, fail = std(r)
    cs = ev.uf('CSb_Photo_Partial', [S32, S32, R], R)(Z, sh, E); aw = AW(ev)
    EC = ev.uf('Electron_Config_Kissel|3', [S64] * 3, R)
    oc = EC(BitVecVal(0, 64), SignExt(32, Z), SignExt(32, sh))
    dl = Implies(cs > 0, And(Z >= 1, Z <= H['ZMAX'], sh >= 0, sh < H['SHELLNUM_K'], aw > 0, oc > 0))
    cl.add('C05/kissel/CS_Photo_Partial/value', ev, And(dl, cs > 0), ok(cs * oc * AV / aw), 'CS_Photo_Partial = CSb_Photo_Partial x occupancy x N_A / A', functions=['CS_Photo_Partial'])
    cl.add('C05/kissel/CS_Photo_Partial/fail', ev, And(dl, Not(cs > 0)), fail, 'twin undefined -> 0.0 + its error', functions=['CS_Photo_Partial'])
    cl.side_obligations('C05/kissel/CS_Photo_Partial/side', ev, assume=dl, functions=['CS_Photo_Partial'])


def check(run):
    H = macros(run)
    run.assumptions += ['real arithmetic for double (DESIGN.md §2.3); constants AVOGNUM, RE2, MEC2, KEV2ANGST read from the current xraylib.h',
                        'primitives (interpolated functions, AtomicWeight) are uninterpreted, >= 0, error iff 0',
                        'sin/cos are uninterpreted functions with range [-1,1]',
                        'DL2: an element with form-factor/Kissel data has a positive atomic weight']
    m1 = bcheck.load_units(run, ['cross_sections.c'])
    m2 = bcheck.load_units(run, ['cs_barns.c'])
    m3 = bcheck.load_units(run, ['scattering.c'])
    m4 = bcheck.load_units(run, ['polarized.c', 'scattering.c'])
    m5 = bcheck.load_units(run, ['kissel_pe.c'])
    groups = [('C05/totals', lambda cl: b_totals(cl, m1, H), ()), ('C05/barns', lambda cl: b_barns(cl, m2, H), ()),
              ('C05/dcs', lambda cl: b_dcs(cl, m3, H, False), ()), ('C05/dcsp', lambda cl: b_dcs(cl, m4, H, True), ()),
              ('C05/kissel', lambda cl: b_kissel_totals(cl, m5, H), ())]
    bcheck.run_groups(run, groups)
    from vlib import datalemma
    datalemma.attach(run, 'C05', want=('weights',))
