# C16 — queries are pure: results do not depend on call history and leave no trace (DESIGN.md §C16, reduction R-frame)
import json, os
from vlib import core
from checks import frame

ALLOWED = {   # documented exceptions: explicit insertion into the built-in crystal collection; diagnostics
    ('write-static', 'Crystal_arr'), ('read-mutable-static', 'Crystal_arr'),
}

def scan(run, prop):
    """IR scan of every library unit: stores to / loads from mutable objects with static storage, calls into process-global libc state"""
    res = frame.ir_frame_scan(run)
    ob = core.Ob(prop + '/frame/ir-scan', 'direct:ir-scan', ['all %d library units (LLVM IR)' % len(frame.LIB_UNITS)], 'finite scan of the encoded program (not of runs)',
                 'no function writes an object with static storage or reads a mutable one, except the crystal mutators on the built-in collection; calls into process-global libc state are listed')
    ob.queries = len(res); ob.nprops = max(1, len(res)); ob.witness = True; ob.status = 'pass'
    for r in res:
        if r['kind'] in ('write-static', 'read-mutable-static'):
            if r['target'] == 'Crystal_arr' and r['function'] in ('Crystal_AddCrystal', 'Crystal_ReadFile', 'Crystal_ExtendArray', 'Crystal_GetCrystal', 'Crystal_GetCrystalsList'): continue
            ob.status = 'fail'; ob.failures.append(dict(key='%s/frame/ir-scan|%s|%s %s' % (prop, r['function'], r['kind'], r['target']), desc='%s: %s @%s (%s)' % (r['function'], r['kind'], r['target'], r['unit']), loc=r['unit'], inputs=r))
        elif r['kind'] == 'libc-global-state' and r['target'] == 'setlocale' and r['function'] == 'CompoundParser' and prop == 'C16':
            continue      # temporary switch to the "C" locale: C16 needs it RESTORED, which is the obligation C16/via-C07/assemble/locale
        elif r['kind'] == 'libc-global-state' and r['target'] != 'strerror':
            ob.status = 'fail'; ob.failures.append(dict(key='%s/frame/ir-scan|%s|calls %s' % (prop, r['function'], r['target']), desc='%s calls %s (%s)' % (r['function'], r['target'], r['detail']), loc=r['unit'], inputs=r))
        elif r['kind'] == 'unparsed':
            ob.status = 'inconclusive'; ob.reason = 'unit not parsed: %s %s' % (r['unit'], r['detail'])
    run.add_ob(ob); return res

def check(run):
    run.assumptions += ['R-frame (DESIGN.md §2.5): if every call writes only caller-owned / fresh objects and reads only its arguments and immutable tables, results are functions of the arguments alone after any history',
                        'Engine B frame obligations: every encoded function is evaluated from ARBITRARY table contents and shown to read no mutable static and write no static storage',
                        'XRayInit has an empty body (checked by the scan: no store, no call)']
    mods = ['c01', 'c02', 'c05', 'c08', 'c06', 'c12'] + (['c09', 'c10', 'c11', 'c13'] if run.tier == 'thorough' else ['c10', 'c13'])
    # value obligations of the structure factor (per-element scratch arrays on the stack): 'the result is this function of the arguments and tables' is the purity statement itself
    frame.sweep(run, 'C16', keep=lambda oid: oid.endswith('/side') or oid.endswith('assemble/locale') or '/F/n1/value/' in oid or '/combine/' in oid, modules=mods + ['c07'])      # add_compound_data: fresh arrays must be initialised (CBMC's malloc returns arbitrary contents)
    scan(run, 'C16')
