# C01 — scalar lookups return the table value or an error (DESIGN.md §C01)
ACCESSORS = {
    # harness name -> (real units needed, description of bounds)
    'AtomicWeight': ['atomicweight.c'], 'ElementDensity': ['densities.c'], 'EdgeEnergy': ['edges.c'],
    'FluorYield': ['fluor_yield.c'], 'JumpFactor': ['jump.c'], 'AtomicLevelWidth': ['atomiclevelwidth.c'],
    'CosKronTransProb': ['coskron.c'], 'ElectronConfig': ['kissel_pe.c'], 'AugerRate': ['auger_trans.c'],
    'AugerYield': ['auger_trans.c'], 'RadRate': ['radrate.c'],
    'ElectronConfig_Biggs': ['comptonprofiles.c'],
}

def check(run):
    run.assumptions += [
        'allocation never fails (--no-malloc-may-fail): no property quantifies over OOM',
        'table cells are not NaN (data lemma DL2 checks this on the generated tables)',
        'vasprintf/fprintf replaced by O(1) stubs (formatting is not the subject)',
    ]
    err = [run.src('xraylib-error.c'), run.src('xraylib-aux.c')]
    thunks = []
    for fn, units in ACCESSORS.items():
        if run.only and not any(o in fn for o in run.only): continue
        srcs = [run.harness('c01.c')] + [run.src(u) for u in units] + err
        thunks.append(lambda fn=fn, srcs=srcs: run.cbmc(
            'C01/acc/' + fn, srcs, 'harness_' + fn, unwind=2, backends=('cvc5s', 'z3s'),
            functions=[fn, 'xrl_set_error_literal', 'xrl_error_new_literal', 'xrl_error_free'],
            bounds='Z, macro: all 32-bit ints; table contents arbitrary (havocked) non-NaN',
            what='in range and cell>0 => returns the cell bit-for-bit with empty slot; otherwise 0.0 + one '
                 'INVALID_ARGUMENT error with non-empty message; same value with error==NULL'))
    run.parallel(thunks)


# ---- Engine B: LineEnergy for plain (non-group) line macros: real arithmetic makes the group branches' FP irrelevant
def b_lineenergy(cl):
    from vlib.irsym import Eval, Prim
    import z3
    from z3 import BitVec, BitVecVal, SignExt, And, Not, Implies
    mod = cl.mod
    ev = Eval(mod, prims={'EdgeEnergy': Prim(), 'CS_FluorLine': Prim()})
    Z = BitVec('Z', 32); line = BitVec('line', 32)
    r = ev.call('LineEnergy', [Z, line])
    r0 = ev.call('LineEnergy', [Z, line], errslot=False)
    H = cl.hdr
    groups = [H[n] for n in ('KA_LINE', 'KB_LINE', 'LA_LINE', 'LB_LINE', 'L1N67_LINE', 'L1O45_LINE', 'L1P23_LINE',
                             'L2P23_LINE', 'L3O45_LINE', 'L3P23_LINE', 'L3P45_LINE', 'KO_LINE', 'KP_LINE')]
    plain = And(*[line != g for g in groups])
    LE = ev.uf('LineEnergy_arr|3', [z3.BitVecSort(64)] * 3, z3.RealSort())
    cell = LE(BitVecVal(0, 64), SignExt(32, Z), SignExt(32, -line - 1))
    inr = And(Z >= 1, Z <= H['ZMAX'], line <= -1, line >= -H['LINENUM'])
    ok = And(inr, cell > 0)
    fns = ['LineEnergy', 'LineEnergyComposed', 'RadRate']
    cl.add('C01/B/LineEnergy/value', ev, And(plain, ok), And(r.rv == cell, Not(r.errset), r.overwrites == 0),
           'plain line in range with positive cell: returns LineEnergy_arr[Z][-line-1] itself, slot stays empty', functions=fns)
    cl.add('C01/B/LineEnergy/fail', ev, And(plain, Not(ok)),
           And(r.rv == 0, r.errset, r.sets_on_slot == 1, r.errcode() == 1, r.overwrites == 0),
           'otherwise: 0.0 and exactly one INVALID_ARGUMENT error', functions=fns)
    cl.add('C01/B/LineEnergy/noslot', ev, z3.BoolVal(True), r0.rv == r.rv,
           'error==NULL returns the same value (all line macros incl. groups)', functions=fns)
    cl.side_obligations('C01/B/LineEnergy/side', ev, functions=fns)


def check_b(run):
    from vlib import bcheck
    from vlib.headers import macros
    mod = bcheck.load_units(run, ['fluor_lines.c', 'radrate.c'])
    hdr = macros(run)
    def g(cl):
        cl.mod = mod; cl.hdr = hdr; b_lineenergy(cl)
    bcheck.run_groups(run, [('C01/B/LineEnergy', g, ())])

_check_a = check
def check(run):
    _check_a(run)
    check_b(run)
