# C01 — scalar lookups return the table value or an error (DESIGN.md §C01)
ACCESSORS = {
    # harness name -> (real units needed, description of bounds)
    'AtomicWeight': ['atomicweight.c'], 'ElementDensity': ['densities.c'], 'EdgeEnergy': ['edges.c'],
    'FluorYield': ['fluor_yield.c'], 'JumpFactor': ['jump.c'], 'AtomicLevelWidth': ['atomiclevelwidth.c'],
    'CosKronTransProb': ['coskron.c'], 'ElectronConfig': ['kissel_pe.c'], 'AugerRate': ['auger_trans.c'],
    'AugerYield': ['auger_trans.c'], 'RadRate': ['radrate.c'],
    'ElectronConfig_Biggs': ['comptonprofiles.c'],
}

def accessors(run, only_fns=None, prefix='C01'):
    run.assumptions += [
        'allocation never fails (--no-malloc-may-fail): no property quantifies over OOM',
        'table cells are not NaN (data lemma DL2 checks this on the generated tables)',
        'vasprintf/fprintf replaced by O(1) stubs (formatting is not the subject)',
    ]
    err = [run.src('xraylib-error.c'), run.src('xraylib-aux.c')]
    thunks = []
    for fn, units in ACCESSORS.items():
        if only_fns is not None and fn not in only_fns: continue
        if run.only and not any(o in fn for o in run.only): continue
        srcs = [run.harness('c01.c')] + [run.src(u) for u in units] + err
        thunks.append(lambda fn=fn, srcs=srcs: run.cbmc(
            prefix + '/acc/' + fn, srcs, 'harness_' + fn, unwind=2, backends=('cvc5s', 'z3s'),
            functions=[fn, 'xrl_set_error_literal', 'xrl_error_new_literal', 'xrl_error_free'],
            bounds='Z, macro: all 32-bit ints; table contents arbitrary (havocked) non-NaN',
            what='in range and cell>0 => returns the cell bit-for-bit with empty slot; otherwise 0.0 + one '
                 'INVALID_ARGUMENT error with non-empty message; same value with error==NULL'))
    run.parallel(thunks)


# ---- Engine B: LineEnergy for plain (non-group) line macros: real arithmetic makes the group branches' FP irrelevant
def b_lineenergy(cl):
    from vlib.irsym import Eval, Prim
    import z3
    from z3 import BitVec, BitVecVal, SignExt, And, Not, Implies
    mod = cl.mod
    ev = Eval(mod, prims={'EdgeEnergy': Prim(), 'CS_FluorLine': Prim()})
    Z = BitVec('Z', 32); line = BitVec('line', 32)
    r = ev.call('LineEnergy', [Z, line])
    r0 = ev.call('LineEnergy', [Z, line], errslot=False)
    H = cl.hdr
    groups = [H[n] for n in ('KA_LINE', 'KB_LINE', 'LA_LINE', 'LB_LINE', 'L1N67_LINE', 'L1O45_LINE', 'L1P23_LINE',
                             'L2P23_LINE', 'L3O45_LINE', 'L3P23_LINE', 'L3P45_LINE', 'KO_LINE', 'KP_LINE')]
    plain = And(*[line != g for g in groups])
    LE = ev.uf('LineEnergy_arr|3', [z3.BitVecSort(64)] * 3, z3.RealSort())
    cell = LE(BitVecVal(0, 64), SignExt(32, Z), SignExt(32, -line - 1))
    inr = And(Z >= 1, Z <= H['ZMAX'], line <= -1, line >= -H['LINENUM'])
    ok = And(inr, cell > 0)
    fns = ['LineEnergy', 'LineEnergyComposed', 'RadRate']
    cl.add('C01/B/LineEnergy/value', ev, And(plain, ok), And(r.rv == cell, Not(r.errset), r.overwrites == 0),
           'plain line in range with positive cell: returns LineEnergy_arr[Z][-line-1] itself, slot stays empty', functions=fns)
    cl.add('C01/B/LineEnergy/fail', ev, And(plain, Not(ok)),
           And(r.rv == 0, r.errset, r.sets_on_slot == 1, r.errcode() == 1, r.overwrites == 0),
           'otherwise: 0.0 and exactly one INVALID_ARGUMENT error', functions=fns)
    cl.add('C01/B/LineEnergy/noslot', ev, z3.BoolVal(True), r0.rv == r.rv,
           'error==NULL returns the same value (all line macros incl. groups)', functions=fns)
    cl.side_obligations('C01/B/LineEnergy/side', ev, functions=fns)


def check_b(run):
    from vlib import bcheck
    from vlib.headers import macros
    mod = bcheck.load_units(run, ['fluor_lines.c', 'radrate.c'])
    hdr = macros(run)
    def g(cl):
        cl.mod = mod; cl.hdr = hdr; b_lineenergy(cl)
    bcheck.run_groups(run, [('C01/B/LineEnergy', g, ())])

def check(run):
    accessors(run)
    check_b(run)


# ---- obligation 2: name tables of xrayvars.c vs the header macros (constant tables, symbolic index, CBMC)
def name_tables(run):
    import re, os
    from vlib.headers import macros, IUPAC_LINE
    H = macros(run)
    tabs = {}
    def put(tab, idx, name): tabs.setdefault(tab, {})[idx] = name
    for k, v in H.items():
        if not isinstance(v, int): continue
        if k.endswith('_LINE') and v < 0 and re.fullmatch(IUPAC_LINE, k[:-5]): put('LineName', -v - 1, k[:-5])
        elif re.fullmatch(r'[KLMNOP]\d?_SHELL', k) and 0 <= v < H['SHELLNUM']: put('ShellName', v, k[:-6])
        elif re.fullmatch(r'F[LM]P?\d\d_TRANS', k): put('TransName', v, 'F' + k[2:-6] if k[1] == 'L' else k[:-6])
        elif k.endswith('_AUGER') and re.fullmatch(r'[KLM]\d?_[LMNOPQ]\d[LMNOPQ]\d_AUGER', k): put('AugerName', v, k[:-6].replace('_', '-', 1))
        elif re.fullmatch(r'[KLM]\d?_SHELL', k) and 0 <= v < H['SHELLNUM_A']: put('AugerNameTotal', v, k[:-6] + '-TOTAL')
    dims = {'LineName': H['LINENUM'], 'ShellName': H['SHELLNUM'], 'TransName': H['TRANSNUM'], 'AugerName': H['AUGERNUM'], 'AugerNameTotal': H['SHELLNUM_A']}
    src = ['#include "vh.h"', '#include "xrayvars.h"']
    for t, n in dims.items():
        ent = tabs.get(t, {})
        src.append('static const char exp_%s[%d][10] = {%s};' % (t, n, ', '.join('"%s"' % ent[i] if i in ent else '"?"' for i in range(n))))
        src.append('''void harness_%s(void) { IN_UINT(i); ASSUME(i < %d);
  if (exp_%s[i][0] != '?') { for (int k = 0; k < 9; k++) { CHECK(%s[i][k] == exp_%s[i][k], "%s[i] spells the header macro whose value maps to slot i"); if (exp_%s[i][k] == 0) break; } }
  VH_END(); }''' % (t, n, t, t, t, t, t))
    src.append('void harness_name_counts(void) { CHECK(sizeof(LineName_) , "x"); }' if False else '')
    path = os.path.join(run.tmp, 'c01_names.c')
    open(path, 'w').write('\n'.join(src))
    missing = {t: [i for i in range(n) if i not in tabs.get(t, {})] for t, n in dims.items()}
    thunks = []
    for t, n in dims.items():
        if run.only and not any(o in t for o in run.only): continue
        thunks.append(lambda t=t, n=n: run.cbmc('C01/names/' + t, [path, run.src('xrayvars.c')], 'harness_' + t, unwind=10,
            backends=('cadical', 'minisat'), functions=['xrayvars.c:' + t],
            bounds='all %d slots (symbolic index); slots with no header macro: %s' % (n, missing[t][:5]),
            what='%s[slot] is the spelling of the header macro that maps to the slot (the build-time readers match data records by these names)' % t))
    run.parallel(thunks)

_check_ab = check
def check(run):
    _check_ab(run)
    name_tables(run)
    from vlib import datalemma
    datalemma.attach(run, 'C01', want=('scalar',), dl1=True)
