# C01 — scalar lookups return the table value or an error (DESIGN.md §C01)
ACCESSORS = {
    # harness name -> (real units needed, description of bounds)
    'AtomicWeight': ['atomicweight.c'], 'ElementDensity': ['densities.c'], 'EdgeEnergy': ['edges.c'],
    'FluorYield': ['fluor_yield.c'], 'JumpFactor': ['jump.c'], 'AtomicLevelWidth': ['atomiclevelwidth.c'],
    'CosKronTransProb': ['coskron.c'], 'ElectronConfig': ['kissel_pe.c'], 'AugerRate': ['auger_trans.c'],
    'AugerYield': ['auger_trans.c'], 'RadRate': ['radrate.c'],
    'ElectronConfig_Biggs': ['comptonprofiles.c'],
}

def check(run):
    run.assumptions += [
        'allocation never fails (--no-malloc-may-fail): no property quantifies over OOM',
        'table cells are not NaN (data lemma DL2 checks this on the generated tables)',
        'vasprintf/fprintf replaced by O(1) stubs (formatting is not the subject)',
    ]
    err = [run.src('xraylib-error.c'), run.src('xraylib-aux.c')]
    thunks = []
    for fn, units in ACCESSORS.items():
        if run.only and not any(o in fn for o in run.only): continue
        srcs = [run.harness('c01.c')] + [run.src(u) for u in units] + err
        thunks.append(lambda fn=fn, srcs=srcs: run.cbmc(
            'C01/acc/' + fn, srcs, 'harness_' + fn, unwind=2, backends=('cvc5s', 'z3s'),
            functions=[fn, 'xrl_set_error_literal', 'xrl_error_new_literal', 'xrl_error_free'],
            bounds='Z, macro: all 32-bit ints; table contents arbitrary (havocked) non-NaN',
            what='in range and cell>0 => returns the cell bit-for-bit with empty slot; otherwise 0.0 + one '
                 'INVALID_ARGUMENT error with non-empty message; same value with error==NULL'))
    run.parallel(thunks)
