import sys, os, importlib, argparse
sys.path.insert(0, os.path.dirname(os.path.dirname(os.path.abspath(__file__))))
from vlib import core

def main():
    ap = argparse.ArgumentParser()
    ap.add_argument('prop', nargs='?')
    ap.add_argument('--tier', default=None)
    ap.add_argument('--replay', default=None)
    ap.add_argument('--only', default=None, help='comma list of obligation id substrings (debugging)')
    a = ap.parse_args()
    if a.replay:
        from vlib import replay
        sys.exit(replay.main(a.replay))
    prop = a.prop.upper()
    mod = importlib.import_module('checks.' + prop.lower())
    run = core.Run(prop, a.tier)
    run.only = a.only.split(',') if a.only else None
    try:
        mod.check(run)
    except Exception as e:
        import traceback; traceback.print_exc()
        ob = core.Ob('internal-error', 'framework', [], '', repr(e)); ob.reason = 'framework exception: %r' % e
        run.add_ob(ob)
    sys.exit(run.finish(getattr(mod, 'LEVEL', 'model_checking')))

if __name__ == '__main__':
    main()
