# bin/vcheck --replay <file>: show a counterexample and, for Engine A obligations, re-run the harness NATIVELY (gcc, -DVERIF_REPLAY)
# against the current /repo sources with the solver's input values.  Exit 1: the failure reproduces natively; 0: it does not
# (model/real-code disagreement: triage, see DESIGN.md 2.6); 2: native replay is not supported for this obligation (Engine B
# counterexamples are printed as the assignment of the claim's variables and table entries).
import json, os, subprocess, sys, tempfile, shutil
from vlib import core


def main(path):
    d = json.load(open(path))
    print('property   : %s\nobligation : %s\nengine     : %s' % (d['property'], d['obligation'], d['engine']))
    for f in d.get('failed', []): print('failed     : %s  [%s]' % (f['desc'], f.get('location') or ''))
    print('inputs     :')
    for k, v in sorted((d.get('inputs') or {}).items()): print('   %s = %s' % (k, v))
    h = d.get('harness')
    if not (isinstance(h, dict) and h.get('sources')):
        print('native replay: not supported for this obligation (no native harness); the inputs above are the solver model'); return 2
    tmp = tempfile.mkdtemp(prefix='vreplay_', dir=os.environ.get('VERIF_SCRATCH', '/var/tmp'))
    try:
        inp = os.path.join(tmp, 'inputs.txt')
        with open(inp, 'w') as fh:
            for k, v in (d.get('inputs') or {}).items():
                if isinstance(v, dict):
                    ty = v.get('type') or ''
                    v = ('b' + v['binary']) if (v.get('binary') and len(v['binary']) == 64 and 'int' not in ty and 'long' not in ty) else v.get('data')
                fh.write('%s=%s\n' % (k, v))
        mainc = os.path.join(tmp, 'main.c')
        open(mainc, 'w').write('void %s(void);\nint main(void) { %s(); return 0; }\n' % (h['function'], h['function']))
        exe = os.path.join(tmp, 'replay')
        inc = ['-I%s/_build' % core.REPO, '-I%s/src' % core.REPO, '-I%s/include' % core.REPO, '-I%s/harness' % core.VERIF, '-DHAVE_CONFIG_H', '-D_GNU_SOURCE', '-DXRL_VERIF', '-DVERIF_REPLAY']
        cmd = ['gcc', '-g', '-O0', '-w', '-fsanitize=address,undefined'] + inc + ['-D' + x for x in h.get('defines', [])] + h['sources'] + [mainc, '-lm', '-o', exe]
        r = subprocess.run(cmd, capture_output=True, text=True, timeout=600)
        if r.returncode != 0:
            print('native replay: harness does not build natively (it relies on solver-side models): %s' % r.stderr.strip()[-600:]); return 2
        r = subprocess.run([exe], capture_output=True, text=True, timeout=120, env=dict(os.environ, VERIF_REPLAY_FILE=inp, ASAN_OPTIONS='detect_leaks=1'))
        out = r.stdout + r.stderr
        print(out[-3000:])
        bad = 'REPLAY-FAIL' in out or 'ERROR: AddressSanitizer' in out or 'runtime error' in out or 'LeakSanitizer' in out
        if 'assumption not met' in out: print('native replay: the solver inputs do not satisfy the harness assumptions natively (havocked tables?)'); return 2
        print('native replay: %s' % ('REPRODUCED' if bad else 'not reproduced'))
        return 1 if bad else 0
    finally:
        shutil.rmtree(tmp, ignore_errors=True)
