# Core of the xraylib solver-based checking framework (see /verif/DESIGN.md §2).
# Engine A driver: goto-cc build of the real units from /repo's working tree, CBMC runs with a
# back-end race, witness (vacuity) twins, trace extraction, known-finding matching, evidence writer.
import os, sys, json, time, subprocess, tempfile, shutil, signal, atexit, re, threading
from concurrent.futures import ThreadPoolExecutor

REPO = os.environ.get('XRL_REPO', '/repo')
VERIF = os.path.dirname(os.path.dirname(os.path.abspath(__file__)))
NCPU = int(os.environ.get('VERIF_JOBS', '16'))

STD_CHECKS = ['--signed-overflow-check', '--undefined-shift-check', '--conversion-check']
BACKENDS = {
    'minisat': [],
    'cadical': ['--sat-solver', 'cadical'],
    'kissat': ['--external-sat-solver', 'kissat'],
    'z3': ['--z3'],
    'cvc5': ['--cvc5'],
    'z3s': ['--z3', '--slice-formula'],
    'cvc5s': ['--cvc5', '--slice-formula'],
    'cadicals': ['--sat-solver', 'cadical', '--slice-formula'],
}


class Ob:
    """One proof obligation and its verdict."""
    def __init__(self, oid, engine, functions, bounds, what=''):
        self.id = oid; self.engine = engine; self.functions = functions; self.bounds = bounds
        self.what = what
        self.status = 'inconclusive'   # pass | fail | inconclusive
        self.reason = ''
        self.backend = ''; self.solver_s = 0.0; self.nprops = 0; self.queries = 0
        self.failures = []             # list of dict(key, desc, loc, inputs)
        self.witness = None            # True = witness reachable (good)
        self.stubs = []; self.assumptions = []

    def to_json(self):
        d = dict(id=self.id, engine=self.engine, functions_encoded=self.functions, bounds=self.bounds,
                 what=self.what, verdict=self.status, backend_won=self.backend,
                 solver_s=round(self.solver_s, 2), vcc_or_assertions=self.nprops, queries=self.queries)
        if self.reason: d['reason'] = self.reason
        if self.witness is not None: d['witness_reachable'] = self.witness
        if self.failures: d['failures'] = [dict(key=f['key'], desc=f['desc']) for f in self.failures]
        return d


class Run:
    def __init__(self, prop, tier=None, seed=None):
        self.prop = prop
        self.tier = tier or os.environ.get('VERIF_TIER', 'quick')
        if self.tier not in ('quick', 'thorough'): self.tier = 'quick'
        try: self.seed = int(seed if seed is not None else os.environ.get('VERIF_SEED', '0'))
        except ValueError: self.seed = 0
        self.t0 = time.time()
        self.pid = os.getpid()
        self.tmp = tempfile.mkdtemp(prefix='xrlv_%s_' % prop)
        atexit.register(self.cleanup)
        self.obs = []; self.lock = threading.Lock()
        self.sem = threading.Semaphore(NCPU)
        self.gb_cache = {}; self.gb_lock = threading.Lock()
        self.extra = {}                 # extra evidence keys
        self.assumptions = []
        self.trusted = []
        self.samples = []
        self.violations = []            # (obligation, failure)
        self.known_hit = []
        self.procs = set()
        self.known = load_known()
        self.inc = self._includes()
        self.replay_dir = os.path.join(VERIF, 'evidence', 'replay', prop)
        for s in (signal.SIGTERM, signal.SIGINT):
            signal.signal(s, lambda *_: (self.cleanup(), os._exit(143)))

    # ---------------------------------------------------------------- build
    def _includes(self):
        cfgdir = os.path.join(REPO, '_build')
        if not os.path.exists(os.path.join(cfgdir, 'config.h')):
            cfgdir = os.path.join(self.tmp, 'cfg'); os.makedirs(cfgdir, exist_ok=True)
            open(os.path.join(cfgdir, 'config.h'), 'w').write(
                '#pragma once\n#define HAVE_COMPLEX_H\n#define HAVE_STRDUP 1\n#define HAVE_STRNDUP 1\n'
                '#define VERSION "0"\n#define XRL_EXTERN __attribute__((visibility("default"))) extern\n')
        return ['-I' + cfgdir, '-I%s/src' % REPO, '-I%s/include' % REPO, '-I%s/harness' % VERIF,
                '-DHAVE_CONFIG_H', '-D_GNU_SOURCE', '-DXRL_VERIF']

    def cleanup(self):
        if os.getpid() != self.pid: return      # forked worker: the scratch dir belongs to the parent
        for p in list(self.procs):
            try: os.killpg(p.pid, signal.SIGKILL)
            except Exception: pass
        shutil.rmtree(self.tmp, ignore_errors=True)

    def src(self, name):
        """path of a unit of the real library"""
        return os.path.join(REPO, 'src', name)

    def harness(self, name):
        return os.path.join(VERIF, 'harness', name)

    def gotocc(self, path, defines=()):
        key = (path, tuple(defines))
        with self.gb_lock:
            ent = self.gb_cache.get(key)
            if ent is None:
                ent = self.gb_cache[key] = dict(lock=threading.Lock(), out=None, err=None,
                    path=os.path.join(self.tmp, 'o%d_%s.gb' % (len(self.gb_cache), os.path.basename(path))))
        with ent['lock']:
            if ent['err']: raise BuildError(ent['err'])
            if ent['out']: return ent['out']
            cmd = ['goto-cc'] + self.inc + ['-D' + d for d in defines] + ['-c', path, '-o', ent['path']]
            r = subprocess.run(cmd, capture_output=True, text=True)
            if r.returncode != 0:
                ent['err'] = 'goto-cc failed for %s:\n%s' % (path, (r.stderr or r.stdout)[-3000:])
                raise BuildError(ent['err'])
            ent['out'] = ent['path']
            return ent['out']

    def link(self, sources, defines=(), tag='p'):
        gbs = [self.gotocc(s, defines) for s in sources]
        with self.gb_lock:
            self.nlink = getattr(self, 'nlink', 0) + 1
            out = os.path.join(self.tmp, '%s_%d.gb' % (tag, self.nlink))
        r = subprocess.run(['goto-cc'] + gbs + ['-o', out], capture_output=True, text=True)
        if r.returncode != 0:
            raise BuildError('goto-cc link failed:\n%s' % (r.stderr or r.stdout)[-3000:])
        return out

    # ---------------------------------------------------------------- cbmc
    def _spawn(self, cmd, env=None):
        if env is None:
            # CBMC writes the CNF for an external SAT solver to a temporary file and a killed (losing) back end leaves it behind:
            # keep those files inside the run's scratch directory, which is removed when the run ends
            env = dict(os.environ, TMPDIR=self.tmp)
        p = subprocess.Popen(cmd, stdout=subprocess.PIPE, stderr=subprocess.DEVNULL, text=True,
                             preexec_fn=os.setsid, env=env)
        self.procs.add(p); return p

    def _kill(self, p):
        try: os.killpg(p.pid, signal.SIGKILL)
        except Exception: pass
        try: p.wait(timeout=5)
        except Exception: pass
        self.procs.discard(p)

    def race(self, gb, args, backends, timeout):
        """run cbmc on gb with each back end in parallel, first definitive answer wins.
        returns (backend, parsed-json or None, seconds)"""
        t0 = time.time(); procs = {}
        outs = {}
        def reader(b, p):
            outs[b] = p.stdout.read()
        threads = []
        for b in backends:
            p = self._spawn(['cbmc', gb] + args + BACKENDS[b])
            procs[b] = p
            th = threading.Thread(target=reader, args=(b, p), daemon=True); th.start(); threads.append(th)
        winner = None; res = None
        try:
            while time.time() - t0 < timeout and procs:
                for b, p in list(procs.items()):
                    rc = p.poll()
                    if rc is None: continue
                    del procs[b]; self.procs.discard(p)
                    for th in threads: th.join(timeout=0.01)
                    time.sleep(0.02)
                    if rc in (0, 10):
                        # wait for reader
                        for _ in range(200):
                            if b in outs: break
                            time.sleep(0.01)
                        js = parse_cbmc_text(outs.get(b, ''))
                        if js is not None and js['status'] in ('success', 'failure'):
                            winner = b; res = js; break
                    # other exit codes: error for this back end -> no answer
                if winner: break
                time.sleep(0.05)
        finally:
            for p in procs.values(): self._kill(p)
        return winner, res, time.time() - t0

    def cbmc(self, oid, sources, function, unwind=None, unwindset=None, flags=(), backends=('cadical',),
             timeout=None, defines=(), functions=None, bounds='', what='', witness=True, checks=None,
             stubs=(), assumptions=(), leak=False, inputs_from_trace=True, object_bits=None, prebuilt=None):
        """One Engine A obligation: harness `function` over `sources` (paths). Returns Ob."""
        ob = Ob(oid, 'A:cbmc', functions or [function], bounds, what)
        if getattr(self, 'only', None) and not any(x in oid for x in self.only): return ob      # debugging filter (--only)
        if getattr(self, 'keep_pred', None) is not None and not self.keep_pred(oid): return ob   # sweep of a cross-cutting property: not part of it
        ob.stubs = list(stubs); ob.assumptions = list(assumptions)
        ob.harness = dict(sources=list(sources), function=function, defines=list(defines))
        timeout = timeout or (150 if self.tier == 'quick' else 900)
        with self.sem:
            try:
                gb = prebuilt[0] if prebuilt else self.link(sources, defines, tag=oid.replace('/', '_'))   # prebuilt = (goto binary, witness twin or None)
                base = ['--function', function, '--drop-unused-functions', '--no-malloc-may-fail',
                        '--unwinding-assertions']
                if unwind is not None: base += ['--unwind', str(unwind)]
                if unwindset: base += ['--unwindset', ','.join(unwindset)]
                if object_bits: base += ['--object-bits', str(object_bits)]
                chk = list(STD_CHECKS if checks is None else checks)
                if leak: chk.append('--memory-leak-check')
                # witness twin: same program, -DWITNESS adds a final assert(0) that must FAIL
                if witness:
                    gbw = prebuilt[1] if prebuilt else self.link(sources, tuple(defines) + ('WITNESS',), tag=oid.replace('/', '_') + '_w')
                    wargs = [a for a in base if a != '--unwinding-assertions'] + ['--no-unwinding-assertions', '--no-standard-checks'] + list(flags)
                    wb, wres, wt = self.race(gbw, wargs, backends, timeout)
                    ob.queries += 1
                    if wres is None:
                        ob.status = 'inconclusive'; ob.reason = 'witness twin: no verdict in %ds' % timeout
                        ob.solver_s += wt
                        self._add(ob); return ob
                    wit = [p for p in wres['props'] if 'WITNESS' in p['desc']]
                    ob.witness = bool(wit) and all(p['status'] == 'FAILURE' for p in wit)
                    ob.solver_s += wt
                    if not ob.witness:
                        ob.status = 'inconclusive'; ob.reason = 'VACUOUS: witness assert(0) not reachable (machinery defect)'
                        self._add(ob); return ob
                b, res, t = self.race(gb, base + chk + list(flags), backends, timeout)
                ob.queries += 1
                ob.solver_s += t
                if res is None:
                    ob.status = 'inconclusive'; ob.reason = 'no back end of %s answered in %ds' % (list(backends), timeout)
                else:
                    ob.backend = b; ob.nprops = len(res['props'])
                    bad = [p for p in res['props'] if p['status'] != 'SUCCESS']
                    unw = [p for p in bad if 'unwinding assertion' in p['desc'] or p['name'].find('.unwind.') >= 0]
                    real = [p for p in bad if p not in unw]
                    if not bad: ob.status = 'pass'
                    elif real:
                        ob.status = 'fail'
                        self._trace_inputs(gb, base + chk + list(flags), b, real[:3], timeout)
                        for p in real:
                            ob.failures.append(dict(key='%s|%s|%s' % (oid, p['func'], p['desc']), desc=p['desc'],
                                                    name=p['name'], loc=p['loc'], inputs=p.get('inputs', {}),
                                                    func=p['func']))
                    else:
                        ob.status = 'inconclusive'; ob.reason = 'unwinding bound too small: ' + unw[0]['name']
            except BuildError as e:
                ob.status = 'inconclusive'; ob.reason = 'BUILD: ' + str(e)[:1500]
        self._add(ob); return ob

    def _trace_inputs(self, gb, args, backend, props, timeout):
        """re-run the winning back end for the failing properties with --trace to extract harness inputs"""
        for p in props:
            try:
                r = subprocess.run(['cbmc', gb] + args + BACKENDS[backend] + ['--property', p['name'], '--trace', '--json-ui'],
                                   capture_output=True, text=True, timeout=timeout)
                js = parse_cbmc_json(r.stdout)
                if js:
                    for q in js['props']:
                        if q['name'] == p['name'] and 'inputs' in q: p['inputs'] = q['inputs']
            except Exception as e:
                p['inputs'] = {'_trace_error': repr(e)}

    def _add(self, ob):
        with self.lock:
            self.obs.append(ob)
        tag = {'pass': 'ok  ', 'fail': 'FAIL', 'inconclusive': 'INCONCLUSIVE'}[ob.status]
        print('[%s] %-4s %-40s %-8s %6.1fs props=%d %s' % (self.prop, tag, ob.id, ob.backend, ob.solver_s, ob.nprops,
                                                            ob.reason[:300]), flush=True)

    def add_ob(self, ob):
        self._add(ob)

    def parallel(self, thunks, workers=None):
        with ThreadPoolExecutor(max_workers=workers or NCPU) as ex:
            futs = [ex.submit(t) for t in thunks]
            out = []
            for f in futs:
                try: out.append(f.result())
                except Exception as e:
                    import traceback; traceback.print_exc()
                    ob = Ob('internal-error', 'framework', [], '', str(e)); ob.reason = 'framework exception: %r' % e
                    self._add(ob); out.append(ob)
            return out

    # ---------------------------------------------------------------- finish
    def finish(self, level='model_checking'):
        os.makedirs(os.path.join(VERIF, 'evidence'), exist_ok=True)
        nviol = 0; lines = []
        for ob in self.obs:
            if ob.status != 'fail': continue
            unknown = []
            for f in ob.failures:
                k = match_known(self.known, self.prop, f['key'])
                if k is not None:
                    if k not in self.known_hit:
                        self.known_hit.append(k)
                    f['known'] = True
                    continue
                unknown.append(f)
                print('  violated: obligation=%s %s at %s' % (ob.id, f['desc'], f.get('loc', '')))
            if unknown:
                nviol += 1
                path = self.write_replay(ob, unknown)
                lines.append('VIOLATION property=%s replay=%s' % (self.prop, path))
        for k in self.known_hit:
            print('KNOWN-FINDING: property=%s %s' % (self.prop, k['what']))
        inconc = [ob for ob in self.obs if ob.status == 'inconclusive']
        for ob in inconc:
            print('INCONCLUSIVE obligation=%s %s' % (ob.id, ob.reason[:400]))
        nob = len(self.obs)
        # an obligation whose only failures are known findings counts as discharged-with-known-finding
        disc = len([ob for ob in self.obs if ob.status == 'pass' or
                    (ob.status == 'fail' and all(f.get('known') for f in ob.failures))])
        samples = self.samples or [ob.to_json() for ob in self.obs[:6]]
        cov = dict(obligations=nob, discharged=disc, inconclusive=[dict(id=o.id, reason=o.reason[:300]) for o in inconc],
                   evaluations=max(1, sum(o.queries for o in self.obs)),
                   distinct_nontrivial=len([o for o in self.obs if o.status != 'inconclusive' and (o.witness is not False)]),
                   rule='one evaluation = one solver query (CBMC run or SMT check); an obligation is non-trivial when its '
                        'vacuity witness was reachable (Engine A) or its premise was shown satisfiable (Engine B) and its '
                        'formula has at least one symbolic input',
                   states=max(1, sum(o.nprops for o in self.obs)),
                   transitions=max(1, sum(o.queries for o in self.obs)),
                   traces_validated_against_impl=self.extra.pop('traces_validated_against_impl', 0),
                   samples=samples,
                   checker_cmd='cbmc 6.11.0 (--unwinding-assertions, back ends raced) / z3 via irsym; see per_obligation',
                   trusted_base=self.trusted or ['cbmc 6.11 + SAT/SMT back end', 'goto-cc C front end',
                                                'harness stubs listed under assumptions'],
                   solver_time_s=round(sum(o.solver_s for o in self.obs), 1),
                   queries=sum(o.queries for o in self.obs),
                   known_findings=[k['key'] for k in self.known_hit],
                   per_obligation=[o.to_json() for o in self.obs],
                   explanation='states = number of verification conditions/assertions decided by the solver over all '
                               'obligations; transitions = solver queries. Bounded symbolic checking: each obligation '
                               'holds for ALL values of its symbolic inputs inside the stated bounds.')
        cov.update(self.extra)
        ev = dict(property_id=self.prop, tier=self.tier, seed=self.seed, level=level, coverage=cov,
                  assumptions=self.assumptions, wall_s=round(time.time() - self.t0, 1), violations=nviol)
        with open(os.path.join(VERIF, 'evidence', self.prop + '.json'), 'w') as f:
            json.dump(ev, f, indent=1)
        print('[%s] tier=%s obligations=%d discharged=%d inconclusive=%d violations=%d known=%d wall=%.0fs' % (
            self.prop, self.tier, nob, disc, len(inconc), nviol, len(self.known_hit), time.time() - self.t0))
        for l in lines: print(l)
        sys.stdout.flush()
        self.cleanup()
        return 1 if nviol else 0

    def write_replay(self, ob, fs):
        os.makedirs(self.replay_dir, exist_ok=True)
        name = re.sub(r'[^A-Za-z0-9_.-]+', '_', ob.id)[:150]
        path = os.path.join(self.replay_dir, name + '.json')
        inputs = {}
        for f in fs:
            if f.get('inputs'): inputs = f['inputs']; break
        d = dict(property=self.prop, obligation=ob.id, engine=ob.engine, harness=getattr(ob, 'harness', None),
                 failed=[dict(desc=f['desc'], location=f.get('loc'), key=f['key']) for f in fs],
                 inputs=inputs, native=getattr(ob, 'native', None),
                 how='inputs are the values the solver assigned to the harness variables; '
                     '/verif/bin/vcheck --replay <this file> re-runs the harness natively with them where supported')
        with open(path, 'w') as fh: json.dump(d, fh, indent=1, default=str)
        return path


class BuildError(Exception):
    pass


def parse_cbmc_json(text):
    try:
        js = json.loads(text)
    except Exception:
        return None
    status = None; props = []
    for m in js:
        if not isinstance(m, dict): continue
        if 'cProverStatus' in m: status = m['cProverStatus']
        if 'result' in m:
            for r in m['result']:
                loc = r.get('sourceLocation', {})
                p = dict(name=r.get('property', ''), desc=r.get('description', ''), status=r.get('status', ''),
                         func=loc.get('function', ''), loc='%s:%s' % (os.path.basename(loc.get('file', '')), loc.get('line', '')))
                if r.get('status') != 'SUCCESS' and 'trace' in r:
                    p['inputs'] = trace_inputs(r['trace'])
                props.append(p)
    if status is None: return None
    return dict(status=status, props=props)


def parse_cbmc_text(text):
    status = None; props = []; func = ''; fil = ''
    for ln in text.splitlines():
        m = re.match(r'^\[(\S+)\] (?:line (\d+) )?(.*): (SUCCESS|FAILURE|UNKNOWN|ERROR)$', ln)
        if m:
            props.append(dict(name=m.group(1), desc=m.group(3), status=m.group(4), func=func,
                              loc='%s:%s' % (os.path.basename(fil), m.group(2) or '')))
            continue
        m = re.match(r'^(\S+) function (\S+)$', ln)
        if m: fil, func = m.group(1), m.group(2); continue
        if ln.startswith('VERIFICATION SUCCESSFUL'): status = 'success'
        elif ln.startswith('VERIFICATION FAILED'): status = 'failure'
    if status is None: return None
    return dict(status=status, props=props)


def trace_inputs(trace):
    """last value assigned to each harness-level variable (function name starting with 'harness' or file under
    /verif/harness), with the exact bit pattern when available"""
    vals = {}
    for st in trace:
        if st.get('stepType') != 'assignment' or st.get('hidden'): continue
        loc = st.get('sourceLocation', {})
        if '/verif/harness' not in loc.get('file', '') and not loc.get('function', '').startswith('harness'):
            continue
        lhs = st.get('lhs', '')
        if not lhs or lhs.startswith('__CPROVER') or lhs.startswith('return_value') or '$' in lhs: continue
        v = st.get('value', {})
        if 'data' in v:
            vals[lhs] = dict(data=v.get('data'), binary=v.get('binary'), type=v.get('type')) if 'binary' in v else v.get('data')
        elif 'elements' in v or 'members' in v:
            continue
    return vals


def load_known():
    p = os.path.join(VERIF, 'known_findings.json')
    if not os.path.exists(p): return []
    return json.load(open(p)).get('findings', [])


def match_known(known, prop, key):
    for k in known:
        if k.get('status') == 'known' and k.get('property') == prop and k.get('key') == key:
            return k
    return None
