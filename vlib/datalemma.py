# Data lemma (DESIGN.md §2.4): closed facts about the generated constants, evaluated directly (NOT a solver claim).
# Rebuilds the data generator from /repo's current sources, regenerates xrayglob_inline.c, loads it and
#   DL2: checks the representation invariants that the solver proofs assume,
#   DL1: compares the scalar tables cell by cell with the records of data/*.dat parsed independently here.
import os, re, subprocess, ctypes, math, time
from . import core

SHARED = ['atomicweight.c', 'auger_trans.c', 'coskron.c', 'cross_sections.c', 'crystal_diffraction.c', 'fi.c', 'fii.c', 'fluor_yield.c',
          'radrate.c', 'scattering.c', 'splint.c', 'xraylib-aux.c', 'xraylib-error.c', 'xrayvars.c']
PRDATA = SHARED + ['xrayglob.c', 'xrayfiles.c', 'xrf_cross_sections_aux-private.c', 'pr_data.c']


class Tables:
    def __init__(self, run):
        self.run = run
        t0 = time.time()
        d = os.path.join(run.tmp, 'dl'); os.makedirs(d, exist_ok=True)
        inc = [a for a in run.inc if '/harness' not in a and a != '-DXRL_VERIF']
        exe = os.path.join(d, 'prdata')
        r = subprocess.run(['gcc', '-O1', '-w'] + inc + [os.path.join(core.REPO, 'src', f) for f in PRDATA] + ['-lm', '-o', exe], capture_output=True, text=True)
        if r.returncode != 0: raise RuntimeError('prdata build failed: ' + r.stderr[-2000:])
        self.src = os.path.join(d, 'xrayglob_inline.c')
        r = subprocess.run([exe, core.REPO, self.src], capture_output=True, text=True, timeout=600)
        if r.returncode != 0 or not os.path.exists(self.src): raise RuntimeError('prdata run failed: ' + (r.stderr or r.stdout)[-2000:])
        so = os.path.join(d, 'tables.so')
        r = subprocess.run(['gcc', '-O0', '-w', '-shared', '-fPIC'] + inc + [self.src, '-o', so], capture_output=True, text=True)
        if r.returncode != 0: raise RuntimeError('generated table file does not compile: ' + r.stderr[-2000:])
        self.lib = ctypes.CDLL(so)
        self.build_s = time.time() - t0

    def arr(self, name, ctype, *dims):
        t = ctype
        for n in reversed(dims): t = t * n
        return t.in_dll(self.lib, name)

    def d2(self, name, n1, n2): return self.arr(name, ctypes.c_double, n1, n2)
    def d1(self, name, n1): return self.arr(name, ctypes.c_double, n1)
    def i1(self, name, n1): return self.arr(name, ctypes.c_int, n1)
    def p1(self, name, n1): return self.arr(name, ctypes.POINTER(ctypes.c_double), n1)
    def p2(self, name, n1, n2): return self.arr(name, ctypes.POINTER(ctypes.c_double), n1, n2)

    def crystal_source(self):
        """the generated definitions of the built-in crystal array (for the C14/C15 harnesses)"""
        txt = open(self.src).read()
        a = txt.index('static Crystal_Atom __atoms_')
        b = txt.index('};', txt.index('Crystal_Array Crystal_arr')) + 2
        return txt[a:b]


def fin(x): return not (math.isnan(x) or math.isinf(x))


def dl2(run, T, H, want):
    """representation invariants. want: set of invariant group names. returns list of (name, ok, detail, ncells)"""
    out = []
    Z1 = H['ZMAX'] + 1
    def rec(name, bad, n): out.append((name, not bad, '; '.join(bad[:5]), n))
    if 'scalar' in want:
        bad = []; n = 0
        for nm, cols in (('EdgeEnergy_arr', H['SHELLNUM']), ('LineEnergy_arr', H['LINENUM']), ('FluorYield_arr', H['SHELLNUM']), ('JumpFactor_arr', H['SHELLNUM']),
                         ('CosKron_arr', H['TRANSNUM']), ('RadRate_arr', H['LINENUM']), ('AtomicLevelWidth_arr', H['SHELLNUM']),
                         ('Electron_Config_Kissel', H['SHELLNUM_K']), ('EdgeEnergy_Kissel', H['SHELLNUM_K']), ('Auger_Rates', H['AUGERNUM']), ('Auger_Yields', H['SHELLNUM_A'])):
            a = T.d2(nm, Z1, cols)
            for z in range(Z1):
                row = a[z]
                for c in range(cols):
                    v = row[c]; n += 1
                    if not fin(v): bad.append('%s[%d][%d]=%r not finite' % (nm, z, c, v))
                    elif v < 0 and v != -9999.0 and nm not in ('Auger_Yields',): bad.append('%s[%d][%d]=%r negative (and not the -9999 absent marker)' % (nm, z, c, v))
                    elif v < 0 and nm in ('LineEnergy_arr', 'RadRate_arr'): bad.append('%s[%d][%d]=%r negative (these two tables are read raw by the group-line code)' % (nm, z, c, v))
        for nm in ('AtomicWeight_arr', 'ElementDensity_arr'):
            a = T.d1(nm, Z1)
            for z in range(Z1):
                n += 1
                if not fin(a[z]) or (a[z] < 0 and a[z] != -9999.0): bad.append('%s[%d]=%r' % (nm, z, a[z]))
        rec('scalar tables finite and non-negative', bad, n)
    if 'jump' in want:
        bad = []; n = 0
        J = T.d2('JumpFactor_arr', Z1, H['SHELLNUM']); E = T.d2('EdgeEnergy_arr', Z1, H['SHELLNUM'])
        for z in range(Z1):
            for s in range(H['SHELLNUM']):
                n += 1
                if not (J[z][s] <= 0 or J[z][s] >= 1): bad.append('JumpFactor[%d][%d]=%r in (0,1)' % (z, s, J[z][s]))
            e = [E[z][k] for k in range(4)]
            for i in range(4):
                for j in range(i + 1, 4):
                    if e[i] > 0 and e[j] > 0 and not e[i] >= e[j]: bad.append('edges of Z=%d not ordered: %r' % (z, e))
        rec('jump ratios are 0 or >= 1; present K/L edges ordered K >= L1 >= L2 >= L3', bad, n)
    if 'lines' in want and False:   # no longer assumed by any proof (KA/KB skip members without an energy since the fix)
        bad = []; n = 0
        LE = T.d2('LineEnergy_arr', Z1, H['LINENUM']); RR = T.d2('RadRate_arr', Z1, H['LINENUM'])
        mem = ['KL1', 'KL2', 'KL3', 'L3M4', 'L3M5', 'L1N6', 'L1N7', 'L1O4', 'L1O5', 'L1P2', 'L1P3', 'L2P2', 'L2P3', 'L3O4', 'L3O5', 'L3P2', 'L3P3', 'L3P4', 'L3P5']
        for z in range(Z1):
            for m in mem:
                s = -H[m + '_LINE'] - 1; n += 1
                if RR[z][s] > 0 and not LE[z][s] > 0: bad.append('Z=%d %s has a rate but no energy' % (z, m))
        rec('KA / LA / doublet member lines with a radiative rate also have an energy', bad, n)
    if 'spline' in want:
        bad = []; n = 0
        fam = [('NE_Photo', 'E_Photo_arr', ['CS_Photo_arr', 'CS_Photo_arr2']), ('NE_Rayl', 'E_Rayl_arr', ['CS_Rayl_arr', 'CS_Rayl_arr2']),
               ('NE_Compt', 'E_Compt_arr', ['CS_Compt_arr', 'CS_Compt_arr2']), ('NE_Energy', 'E_Energy_arr', ['CS_Energy_arr', 'CS_Energy_arr2']),
               ('Nq_Rayl', 'q_Rayl_arr', ['FF_Rayl_arr', 'FF_Rayl_arr2']), ('Nq_Compt', 'q_Compt_arr', ['SF_Compt_arr', 'SF_Compt_arr2']),
               ('NE_Fi', 'E_Fi_arr', ['Fi_arr', 'Fi_arr2']), ('NE_Fii', 'E_Fii_arr', ['Fii_arr', 'Fii_arr2']),
               ('Npz_ComptonProfiles', 'pz_ComptonProfiles', ['Total_ComptonProfiles', 'Total_ComptonProfiles2']),
               ('NE_Photo_Total_Kissel', 'E_Photo_Total_Kissel', ['Photo_Total_Kissel', 'Photo_Total_Kissel2'])]
        nmax = 0; decr = []
        for NN, X, Ys in fam:
            N = T.i1(NN, Z1); xa = T.p1(X, Z1); ys = [T.p1(y, Z1) for y in Ys]
            for z in range(Z1):
                k = N[z]
                if k == 0: bad.append('%s[%d] == 0 (a present table needs >= 1 knot; absent must be negative)' % (NN, z)); continue
                if k < 0: continue
                nmax = max(nmax, k)
                if not xa[z] or any(not y[z] for y in ys): bad.append('%s[%d]=%d but a row pointer is NULL' % (NN, z, k)); continue
                xs = xa[z][:k]; n += k
                for i in range(k):
                    if not fin(xs[i]) or any(not fin(y[z][i]) for y in ys): bad.append('%s Z=%d knot %d not finite' % (X, z, i)); break
                    if i and not xs[i] >= xs[i - 1]: decr.append('%s Z=%d knot %d' % (X, z, i))
        rec('spline families: N >= 1 or negative, rows present, values finite (max N = %d; informational: %d decreasing knot pairs in the data: %s; not assumed by any proof)' % (nmax, len(decr), decr[:3]), bad, n)
        bad = []
        NS = T.i1('NShells_ComptonProfiles', Z1); NP = T.i1('Npz_ComptonProfiles', Z1); UO = T.p1('UOCCUP_ComptonProfiles', Z1)
        for z in range(Z1):
            if NS[z] > H['SHELLNUM_C']: bad.append('NShells[%d]=%d > SHELLNUM_C' % (z, NS[z]))
            for s in range(max(NS[z], 0)):
                if UO[z][s] < 0 or not fin(UO[z][s]): bad.append('UOCCUP[%d][%d]=%r' % (z, s, UO[z][s]))
        rec('Compton profile shells: NShells <= SHELLNUM_C, occupancies >= 0', bad, Z1)
    if 'weights' in want:
        bad = []; AW = T.d1('AtomicWeight_arr', Z1)
        for NN in ('Nq_Rayl', 'Nq_Compt', 'NE_Photo_Total_Kissel'):
            N = T.i1(NN, Z1)
            for z in range(Z1):
                if N[z] > 0 and not AW[z] > 0: bad.append('%s[%d] > 0 but AtomicWeight_arr[%d] == 0' % (NN, z, z))
        EC = T.d2('Electron_Config_Kissel', Z1, H['SHELLNUM_K'])
        for z in range(Z1):
            if any(EC[z][s] > 0 for s in range(H['SHELLNUM_K'])) and not AW[z] > 0: bad.append('Kissel configuration for Z=%d without atomic weight' % z)
        rec('an element with form-factor / scattering-function / Kissel data has a positive atomic weight', bad, 4 * Z1)
    return out


# ------------------------------------------------------------------------------------------ DL1 (scalar tables vs data files)
def dl1_scalar(run, T, H):
    """independent parse of the data files; each generated cell == the record of the same element and NAME (11 digits)"""
    from .headers import iupac_lines
    D = os.path.join(core.REPO, 'data'); Z1 = H['ZMAX'] + 1
    res = []
    def close(a, b): return a == b or abs(a - b) <= 1e-10 * max(abs(a), abs(b))
    def cmp2(tab, cols, recs, label):
        A = T.d2(tab, Z1, cols); bad = []; n = 0
        for z in range(Z1):
            for c in range(cols):
                n += 1; exp = recs.get((z, c), 0.0)
                if exp == 0.0 and A[z][c] <= 0.0: continue      # absent: 0 or the -9999 marker, both 'no positive record'
                if not close(A[z][c], exp): bad.append('%s[%d][%d]=%r, data file says %r' % (tab, z, c, A[z][c], exp))
        res.append((label, not bad, '; '.join(bad[:5]), n))
    shell_idx = {k[:-6]: v for k, v in H.items() if re.fullmatch(r'[KLMNOPQ]\d?_SHELL', k) and isinstance(v, int)}
    line_idx = {n: -v - 1 for n, v in iupac_lines(H).items()}
    trans_idx = {('F' + k[2:-6] if k[1] == 'L' else k[:-6]): v for k, v in H.items() if re.fullmatch(r'F[LM]P?\d\d_TRANS', k)}
    trans_idx['F1'] = 0      # total L1 Coster-Kronig record, stored in the unused slot 0 (never returned: the accessor rejects trans < 1)
    def named(path, idx, scale=1.0, maxcol=None):
        recs = {}
        for ln in open(os.path.join(D, path)):
            p = ln.split()
            if len(p) != 3: continue
            try: z = int(p[0]); v = float(p[2])
            except ValueError: continue
            if p[1] in idx and (maxcol is None or idx[p[1]] < maxcol): recs[(z, idx[p[1]])] = v * scale
        return recs
    cmp2('EdgeEnergy_arr', H['SHELLNUM'], named('edges.dat', shell_idx, 1e-3, H['SHELLNUM']), 'EdgeEnergy_arr == edges.dat (eV -> keV) by shell NAME')
    cmp2('LineEnergy_arr', H['LINENUM'], named('fluor_lines.dat', line_idx, 1e-3), 'LineEnergy_arr == fluor_lines.dat (eV -> keV) by line NAME')
    cmp2('FluorYield_arr', H['SHELLNUM'], named('fluor_yield.dat', shell_idx, 1.0, H['SHELLNUM']), 'FluorYield_arr == fluor_yield.dat by shell NAME')
    cmp2('JumpFactor_arr', H['SHELLNUM'], named('jump.dat', shell_idx, 1.0, H['SHELLNUM']), 'JumpFactor_arr == jump.dat by shell NAME')
    cmp2('CosKron_arr', H['TRANSNUM'], named('coskron.dat', trans_idx), 'CosKron_arr == coskron.dat by transition NAME')
    cmp2('RadRate_arr', H['LINENUM'], named('radrate.dat', line_idx), 'RadRate_arr == radrate.dat by line NAME')
    cmp2('AtomicLevelWidth_arr', H['SHELLNUM'], named('atomiclevelswidth.dat', shell_idx, 1e-3, H['SHELLNUM']), 'AtomicLevelWidth_arr == atomiclevelswidth.dat (eV -> keV) by shell NAME')
    for tab, path in (('AtomicWeight_arr', 'atomicweight.dat'), ('ElementDensity_arr', 'densities.dat')):
        recs = {}
        for ln in open(os.path.join(D, path)):
            p = ln.split()
            if len(p) >= 2:
                try: recs[int(p[0])] = float(p[1])
                except ValueError: pass
        A = T.d1(tab, Z1); bad = []
        for z in range(Z1):
            if recs.get(z, 0.0) == 0.0 and A[z] <= 0.0: continue
            if not close(A[z], recs.get(z, 0.0)): bad.append('%s[%d]=%r, data file says %r' % (tab, z, A[z], recs.get(z, 0.0)))
        res.append(('%s == %s' % (tab, path), not bad, '; '.join(bad[:5]), Z1))
    return res


def report(run, oid, results, functions, what):
    """one obligation record for a list of direct checks"""
    ob = core.Ob(oid, 'direct:data-lemma', functions, 'closed facts: %d constants' % sum(r[3] for r in results), what)
    ob.queries = len(results); ob.nprops = sum(r[3] for r in results); ob.witness = True
    bad = [r for r in results if not r[1]]
    if bad:
        ob.status = 'fail'
        for name, ok, detail, n in bad:
            ob.failures.append(dict(key='%s|%s' % (oid, name), desc='%s: %s' % (name, detail), loc='generated tables', inputs={'detail': detail}))
    else: ob.status = 'pass'
    run.add_ob(ob); return ob


def attach(run, prefix, want=(), dl1=False, dl1_splines=False):
    """adds the data-lemma obligations a property needs (built from /repo's current generator and data files)"""
    from .headers import macros
    H = macros(run)
    try:
        T = Tables(run)
    except Exception as e:
        ob = core.Ob(prefix + '/DL/build', 'direct:data-lemma', ['pr_data.c', 'xrayfiles.c'], '', 'regenerate the tables from the current sources')
        ob.status = 'inconclusive'; ob.reason = 'data generator: %s' % e; run.add_ob(ob); return None
    if want:
        report(run, prefix + '/DL2', dl2(run, T, H, set(want)), ['pr_data.c', 'xrayfiles.c', 'generated xrayglob_inline.c'],
               'DL2: the regenerated tables satisfy the representation invariants assumed by the solver proofs (%s)' % ', '.join(sorted(want)))
    if dl1:
        report(run, prefix + '/DL1', dl1_scalar(run, T, H), ['pr_data.c', 'xrayfiles.c', 'data/*.dat'],
               'DL1: every cell of the eleven regenerated scalar tables equals the data-file record of the same element and NAME (unit-converted, 1e-10 relative), absent cells are non-positive')
    if dl1_splines:
        report(run, prefix + '/DL1-splines', dl1_spline(run, T, H), ['pr_data.c', 'xrayfiles.c', 'data/*.dat'],
               'DL1: knots, ordinates and second derivatives of the eight interpolated families equal the data files record by record; an element has a table iff the file has a block for it')
    run.assumptions.append('data lemma (direct evaluation, not a solver claim): tables regenerated with a native build of the current pr_data.c/xrayfiles.c in %.1fs' % T.build_s)
    return T


SPLINE_FILES = [  # file, leading element count?, N table, X table, Y table, Y2 table
    ('CS_Photo.dat', False, 'NE_Photo', 'E_Photo_arr', 'CS_Photo_arr', 'CS_Photo_arr2'),
    ('CS_Rayl.dat', False, 'NE_Rayl', 'E_Rayl_arr', 'CS_Rayl_arr', 'CS_Rayl_arr2'),
    ('CS_Compt.dat', False, 'NE_Compt', 'E_Compt_arr', 'CS_Compt_arr', 'CS_Compt_arr2'),
    ('FF.dat', False, 'Nq_Rayl', 'q_Rayl_arr', 'FF_Rayl_arr', 'FF_Rayl_arr2'),
    ('SF.dat', False, 'Nq_Compt', 'q_Compt_arr', 'SF_Compt_arr', 'SF_Compt_arr2'),
    ('fi.dat', False, 'NE_Fi', 'E_Fi_arr', 'Fi_arr', 'Fi_arr2'),
    ('fii.dat', False, 'NE_Fii', 'E_Fii_arr', 'Fii_arr', 'Fii_arr2'),
    ('CS_Energy.dat', True, 'NE_Energy', 'E_Energy_arr', 'CS_Energy_arr', 'CS_Energy_arr2'),
]


def dl1_spline(run, T, H):
    """every (knot, ordinate, second derivative) triple of the eight interpolated families equals the data-file record of the
    same element and position; an element has a table iff the data file has a block for it"""
    D = os.path.join(core.REPO, 'data'); Z1 = H['ZMAX'] + 1; res = []
    def close(a, b): return a == b or abs(a - b) <= 1e-9 * max(abs(a), abs(b), 1e-300)
    for path, lead, NN, X, Y, Y2 in SPLINE_FILES:
        toks = open(os.path.join(D, path)).read().split()
        pos = 0; blocks = {}
        nz = None
        if lead: nz = int(toks[0]); pos = 1
        z = 1
        while pos < len(toks) and z <= H['ZMAX'] and (nz is None or z <= nz):
            n = int(toks[pos]); pos += 1
            vals = [float(t) for t in toks[pos:pos + 3 * n]]; pos += 3 * n
            blocks[z] = (n, vals); z += 1
        N = T.i1(NN, Z1); xa = T.p1(X, Z1); ya = T.p1(Y, Z1); y2 = T.p1(Y2, Z1)
        bad = []; cells = 0
        for z in range(1, Z1):
            if z in blocks:
                n, vals = blocks[z]
                if N[z] != n: bad.append('%s[%d]=%d, data file block has %d records' % (NN, z, N[z], n)); continue
                for i in range(n):
                    cells += 3
                    if not (close(xa[z][i], vals[3 * i]) and close(ya[z][i], vals[3 * i + 1]) and close(y2[z][i], vals[3 * i + 2])):
                        bad.append('%s Z=%d record %d: generated (%r,%r,%r) vs file (%r,%r,%r)' % (path, z, i, xa[z][i], ya[z][i], y2[z][i], vals[3 * i], vals[3 * i + 1], vals[3 * i + 2])); break
            elif N[z] >= 0: bad.append('%s[%d]=%d but %s has no block for this element' % (NN, z, N[z], path))
        res.append(('%s/%s/%s == %s (%d elements)' % (X, Y, Y2, path, len(blocks)), not bad, '; '.join(bad[:4]), cells))
    return res
