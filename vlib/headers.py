# macro values read from the CURRENT public headers of /repo (never copied into the checks)
import re, os, subprocess
from . import core

_cache = {}

def macros(run=None):
    """name -> int/float value of every object-like #define of the public + private headers, evaluated by cpp"""
    if 'm' in _cache: return _cache['m']
    inc = ['-I%s/_build' % core.REPO, '-I%s/src' % core.REPO, '-I%s/include' % core.REPO, '-DHAVE_CONFIG_H', '-D_GNU_SOURCE']
    if run is not None: inc = [a for a in run.inc if '/harness' not in a]
    src = '#include "config.h"\n#include "xraylib.h"\n#include "xrayglob.h"\n#include "xraylib-crystal-diffraction.h"\n'
    r = subprocess.run(['gcc', '-E', '-dM', '-x', 'c', '-'] + inc, input=src, capture_output=True, text=True)
    names = []
    for ln in r.stdout.splitlines():
        m = re.match(r'#define ([A-Za-z][A-Za-z0-9_]*) (.+)$', ln)
        if m and not m.group(1).startswith('_') and '(' not in m.group(1): names.append(m.group(1))
    # evaluate with the preprocessor + a tiny C program would be exact; simpler: expand textually via cpp and eval
    prog = src + '\n'.join('VHMAC "%s" = %s' % (n, n) for n in names)
    r2 = subprocess.run(['gcc', '-E', '-P', '-x', 'c', '-'] + inc, input=prog, capture_output=True, text=True)
    out = {}
    for ln in r2.stdout.splitlines():
        m = re.match(r'VHMAC "(\w+)" = (.+)$', ln)
        if not m: continue
        e = m.group(2).strip()
        e = re.sub(r'\(\s*(int|double)\s*\)', '', e)
        if re.fullmatch(r'[-+*/() 0-9.eE]+', e):
            try: out[m.group(1)] = eval(e)
            except Exception: pass
    _cache['m'] = out
    return out


IUPAC_LINE = r'K[LMNOP]\d|K[OP]|[LMNOP]\d[LMNOPQ]\d{1,2}'

def iupac_lines(H):
    """IUPAC line macro name (without _LINE) -> value, excluding the Siegbahn aliases (KA1, LL, ...)"""
    import re
    return {k[:-5]: v for k, v in H.items() if k.endswith('_LINE') and isinstance(v, int) and v < 0 and re.fullmatch(IUPAC_LINE, k[:-5])}
