# Engine B ("irsym"): symbolic evaluator for the LLVM IR (clang-14 -O1) of the real xraylib units -> z3.
#   integers  -> bit-vectors (wrap exactly as compiled)      i1 -> Bool
#   double    -> Real (see DESIGN.md §2.3 for what a real-arithmetic verdict means)
#   pointers  -> guarded sets of (object, index path)
#   tables    -> uninterpreted functions of their indices + bounds obligations
#   control   -> state merging over the loop forest; loops unrolled dynamically up to a bound (stated)
#   errors    -> xrl_set_error*/xrl_propagate_error modelled on the pointer cells they write
import re, os, subprocess, time, itertools
import z3
from z3 import (BitVec, BitVecVal, BitVecSort, Bool, BoolVal, Real, RealVal, RealSort, If, And, Or, Not, Implies,
                Function, Solver, simplify, is_true, is_false, is_bv_value, ULT, ULE, UGT, UGE, LShR, SignExt, ZeroExt,
                Extract, BV2Int, ToReal, sat, unsat, unknown, is_bool, is_bv, is_real, is_int)

CLANG_FLAGS = ['-O1', '-fno-inline', '-fno-vectorize', '-fno-slp-vectorize', '-fno-unroll-loops', '-ffp-contract=off',
               '-fno-builtin-memset', '-S', '-emit-llvm']


class Unsupported(Exception):
    pass


# ----------------------------------------------------------------------------------------------- tokens / parser
TOK = re.compile(r'\s*(c"(?:[^"\\]|\\.)*"|"(?:[^"\\]|\\.)*"|[%@][-\w.$]+|[%@]"[^"]*"|![\w.]+|![{(]|-?0x[0-9A-Fa-f]+|-?\d+\.\d*(?:[eE][-+]?\d+)?|-?\d+|\.\.\.|[\w.]+|[\[\]\(\)\{\}<>,=\*!#:])')


def tokenize(s):
    out = []; i = 0
    s = s.split(' ; ')[0] if ' ; ' in s and '"' not in s else s
    while i < len(s):
        m = TOK.match(s, i)
        if not m:
            if s[i:].strip() == '': break
            raise Unsupported('cannot tokenize: ' + s[i:i + 40])
        out.append(m.group(1)); i = m.end()
    return out


class T:  # types
    def __init__(s, kind, **kw): s.kind = kind; s.__dict__.update(kw)
    def __repr__(s):
        if s.kind == 'int': return 'i%d' % s.bits
        if s.kind == 'ptr': return repr(s.to) + '*'
        if s.kind == 'array': return '[%d x %r]' % (s.n, s.elem)
        if s.kind == 'struct': return '{' + ','.join(map(repr, s.fields)) + '}'
        return s.kind + (':' + s.name if s.kind == 'named' else '')


class Toks:
    def __init__(s, toks): s.t = toks; s.i = 0
    def peek(s, k=0): return s.t[s.i + k] if s.i + k < len(s.t) else None
    def next(s): s.i += 1; return s.t[s.i - 1]
    def eat(s, x):
        if s.peek() == x: s.i += 1; return True
        return False
    def expect(s, x):
        if s.next() != x: raise Unsupported('expected %s near %s' % (x, ' '.join(s.t[max(0, s.i - 4):s.i + 3])))
    def done(s): return s.i >= len(s.t)


ATTRS = {'noundef', 'nonnull', 'nocapture', 'readonly', 'readnone', 'noalias', 'signext', 'zeroext', 'immarg',
         'writeonly', 'returned', 'inreg', 'nofree', 'nest', 'swiftself', 'noreturn', 'nounwind', 'inbounds',
         'nsw', 'nuw', 'exact', 'fast', 'inrange', 'nnan', 'ninf', 'nsz', 'arcp', 'contract', 'afn', 'reassoc', 'tail', 'notail',
         'musttail', 'fastcc', 'ccc', 'dso_local', 'local_unnamed_addr', 'unnamed_addr', 'volatile', 'internal',
         'private', 'external', 'global', 'constant', 'hidden', 'linkonce_odr', 'weak_odr', 'available_externally',
         'comdat', 'weak', 'common', 'thread_local', 'protected', 'default', 'dso_preemptable'}


def parse_type(tk, mod):
    t = tk.next()
    if t == 'void': ty = T('void')
    elif re.fullmatch(r'i\d+', t): ty = T('int', bits=int(t[1:]))
    elif t in ('double', 'float', 'x86_fp80'): ty = T('fp', name=t)
    elif t == '[':
        n = int(tk.next()); tk.expect('x'); e = parse_type(tk, mod); tk.expect(']'); ty = T('array', n=n, elem=e)
    elif t == '{' or (t == '<' and tk.peek() == '{'):
        packed = t == '<'
        if packed: tk.expect('{')
        fs = []
        if not tk.eat('}'):
            while True:
                fs.append(parse_type(tk, mod))
                if tk.eat('}'): break
                tk.expect(',')
        if packed: tk.expect('>')
        ty = T('struct', fields=fs)
    elif t.startswith('%'): ty = T('named', name=t[1:].strip('"'))
    elif t == 'opaque': ty = T('opaque')
    elif t in ('label', 'metadata', 'token'): ty = T(t)
    else: raise Unsupported('type token ' + t)
    while True:
        if tk.peek() == '*': tk.next(); ty = T('ptr', to=ty)
        elif tk.peek() == '(':  # function type
            tk.next(); ps = []
            if not tk.eat(')'):
                while True:
                    if tk.peek() == '...': tk.next(); ps.append(T('vararg'))
                    else: ps.append(parse_type(tk, mod))
                    if tk.eat(')'): break
                    tk.expect(',')
            ty = T('func', ret=ty, params=ps)
        else: break
    return ty


def resolve(ty, mod):
    while ty.kind == 'named':
        ty = mod.types[ty.name]
    return ty


class C:  # constant / operand
    def __init__(s, kind, **kw): s.kind = kind; s.__dict__.update(kw)
    def __repr__(s): return 'C(%s,%s)' % (s.kind, {k: v for k, v in s.__dict__.items() if k != 'kind'})


def skip_attrs(tk):
    while True:
        p = tk.peek()
        if p in ATTRS: tk.next()
        elif p in ('align', 'dereferenceable', 'dereferenceable_or_null', 'byval', 'sret', 'byref', 'inalloca', 'preallocated', 'elementtype'):
            tk.next()
            if tk.peek() == '(':
                depth = 0
                while True:
                    x = tk.next()
                    if x == '(': depth += 1
                    elif x == ')':
                        depth -= 1
                        if depth == 0: break
            elif p == 'align': tk.next()
        elif p is not None and p.startswith('#'): tk.next(); tk.next() if False else None
        else: break


def parse_value(tk, ty, mod):
    """operand of type ty"""
    t = tk.next()
    if t.startswith('%'): return C('local', name=t[1:].strip('"'))
    if t.startswith('@'): return C('global', name=t[1:].strip('"'))
    if t in ('null',): return C('null')
    if t in ('undef', 'poison'): return C('undef')
    if t == 'zeroinitializer': return C('zero', ty=ty)
    if t in ('true', 'false'): return C('int', v=1 if t == 'true' else 0, bits=1)
    if t.startswith('c"'):
        b = bytearray(); s = t[2:-1]; i = 0
        while i < len(s):
            if s[i] == '\\': b.append(int(s[i + 1:i + 3], 16)); i += 3
            else: b.append(ord(s[i])); i += 1
        return C('agg', elems=[C('int', v=x, bits=8) for x in b])
    if t == '[' or t == '{' or (t == '<' and tk.peek() == '{'):
        close = {'[': ']', '{': '}', '<': '}'}[t]
        if t == '<': tk.expect('{')
        el = []
        if not tk.eat(close):
            while True:
                ety = parse_type(tk, mod); skip_attrs(tk); el.append(parse_value(tk, ety, mod))
                if tk.eat(close): break
                tk.expect(',')
        if t == '<': tk.expect('>')
        return C('agg', elems=el)
    if t == 'getelementptr':
        skip_attrs(tk); tk.expect('('); bty = parse_type(tk, mod); tk.expect(',')
        pty = parse_type(tk, mod); base = parse_value(tk, pty, mod); idx = []
        while tk.eat(','):
            skip_attrs(tk); ity = parse_type(tk, mod); idx.append(parse_value(tk, ity, mod))
        tk.expect(')')
        return C('gep', base=base, idx=idx, bty=bty)
    if t in ('bitcast', 'inttoptr', 'ptrtoint', 'addrspacecast'):
        tk.expect('('); fty = parse_type(tk, mod); v = parse_value(tk, fty, mod); tk.expect('to'); tty = parse_type(tk, mod); tk.expect(')')
        return C('cast', op=t, v=v, to=tty)
    if re.fullmatch(r'-?\d+', t):
        if ty is not None and ty.kind == 'fp': return C('fp', v=float(t))
        return C('int', v=int(t), bits=ty.bits if ty is not None and ty.kind == 'int' else 64)
    if re.fullmatch(r'-?\d+\.\d*(?:[eE][-+]?\d+)?', t): return C('fp', v=float(t), txt=t)
    if t.startswith('0x') or t.startswith('-0x'):
        import struct
        return C('fp', v=struct.unpack('>d', bytes.fromhex(t[2:].rjust(16, '0')))[0])
    raise Unsupported('value token %s' % t)


class Instr:
    def __init__(s, op, res, **kw): s.op = op; s.res = res; s.__dict__.update(kw)


class Func:
    def __init__(s, name): s.name = name; s.params = []; s.blocks = {}; s.order = []; s.ret = None


class Module:
    def __init__(s): s.types = {}; s.globals = {}; s.funcs = {}; s.decls = {}


def parse_module(text, mod=None):
    mod = mod or Module()
    lines = text.split('\n'); i = 0; cur = None; blk = None
    while i < len(lines):
        ln = lines[i]; i += 1
        st = ln.strip()
        if not st or st.startswith(';') or st.startswith('source_filename') or st.startswith('target ') or st.startswith('attributes ') or st.startswith('!'):
            continue
        if cur is None:
            if st.startswith('%') and ' = type ' in st:
                nm, rest = st.split(' = type ', 1)
                tk = Toks(tokenize(rest)); mod.types[nm[1:].strip('"')] = parse_type(tk, mod); continue
            if st.startswith('@'):
                parse_global(st, mod); continue
            if st.startswith('declare'):
                m = re.search(r'@([-\w.$]+)\(', st)
                if m: mod.decls[m.group(1)] = st
                continue
            if st.startswith('define'):
                hdr = st
                tk = Toks(tokenize(hdr[:hdr.rindex('{')])); tk.next()
                while tk.peek() in ATTRS or tk.peek() in ('dso_local', 'internal', 'hidden', 'linkonce_odr', 'weak', 'zeroext', 'signext'): tk.next()
                skip_attrs(tk)
                rty = parse_type(tk, mod); nm = tk.next()
                cur = Func(nm[1:].strip('"')); cur.ret = rty; tk.expect('(')
                n = 0
                if not tk.eat(')'):
                    while True:
                        if tk.peek() == '...': tk.next(); tk.expect(')'); break
                        pty = parse_type(tk, mod); skip_attrs(tk)
                        p = tk.peek()
                        if p is not None and p.startswith('%'): tk.next(); pn = p[1:]
                        else: pn = str(n)
                        cur.params.append((pn, pty)); n += 1
                        if tk.eat(')'): break
                        tk.expect(',')
                # first block label is the next unnamed number unless labelled explicitly
                cur.entry = None; blk = None; cur.nparams = n
                if cur.name not in mod.funcs: mod.funcs[cur.name] = cur
                else: cur = Func('__dup__')  # keep first definition
                continue
            continue
        # inside a function
        if st == '}':
            cur = None; continue
        m = re.match(r'^([-\w.$]+):', st)
        if m and not st.startswith('%'):
            blk = m.group(1); cur.blocks[blk] = []; cur.order.append(blk)
            if cur.entry is None: cur.entry = blk
            continue
        if blk is None:
            blk = str(cur.nparams); cur.blocks[blk] = []; cur.order.append(blk); cur.entry = blk
        if st.startswith('switch') and st.endswith('['):
            while not lines[i].strip().startswith(']'):
                st += ' ' + lines[i].strip(); i += 1
            st += ' ]'; i += 1
        if 'landingpad' in st:
            while i < len(lines) and lines[i].strip().startswith(('cleanup', 'catch', 'filter')):
                st += ' ' + lines[i].strip(); i += 1
        if st.startswith('invoke') or ' = invoke ' in st:
            st += ' ' + lines[i].strip(); i += 1
        cur.blocks[blk].append(parse_instr(st, mod))
    return mod


def parse_global(st, mod):
    m = re.match(r'@("[^"]+"|[-\w.$]+) = (.*)$', st)
    name = m.group(1).strip('"'); rest = m.group(2)
    rest = re.sub(r', (align \d+|section "[^"]*"|comdat(\([^)]*\))?|!dbg !\d+)', '', rest)
    rest = re.sub(r', align \d+$', '', rest)
    tk = Toks(tokenize(rest)); ext = False; const = False
    while tk.peek() in ATTRS:
        w = tk.next()
        if w == 'external' or w == 'available_externally': ext = ext or w == 'external'
        if w == 'constant': const = True
    try:
        ty = parse_type(tk, mod)
        init = None
        if not ext and not tk.done():
            init = parse_value(tk, ty, mod)
    except Unsupported as e:
        ty = T('opaque'); init = None; const = False
    mod.globals[name] = dict(ty=ty, init=init, const=const, ext=ext)


def parse_args(tk, mod):
    args = []
    tk.expect('(')
    if not tk.eat(')'):
        while True:
            aty = parse_type(tk, mod); skip_attrs(tk)
            if aty.kind == 'metadata':
                # metadata operand (dbg intrinsics) - skip to matching
                depth = 0
                while not (depth == 0 and tk.peek() in (',', ')')):
                    x = tk.next()
                    if x in ('(', '!(', '!{', '{'): depth += 1
                    if x in (')', '}'): depth -= 1
                args.append((aty, C('undef')))
            else:
                args.append((aty, parse_value(tk, aty, mod)))
            if tk.eat(')'): break
            tk.expect(',')
    return args


def parse_instr(st, mod):
    st = re.sub(r', !\w+(\.\w+)* !\d+', '', st)
    st = re.sub(r', !\w+ !\{[^}]*\}', '', st)
    res = None
    m = re.match(r'^%("[^"]+"|[-\w.$]+) = (.*)$', st)
    if m: res = m.group(1).strip('"'); st = m.group(2)
    tk = Toks(tokenize(st)); op = tk.next()
    while op in ('tail', 'notail', 'musttail'): op = tk.next()
    I = Instr(op, res, text=st)
    if op == 'br':
        if tk.eat('label'): I.targets = [tk.next()[1:]]; I.cond = None
        else:
            ty = parse_type(tk, mod); I.cond = parse_value(tk, ty, mod); tk.expect(','); tk.expect('label'); a = tk.next()[1:]
            tk.expect(','); tk.expect('label'); b = tk.next()[1:]; I.targets = [a, b]
    elif op == 'switch':
        ty = parse_type(tk, mod); I.ty = ty; I.v = parse_value(tk, ty, mod); tk.expect(','); tk.expect('label'); I.default = tk.next()[1:]
        tk.expect('['); I.cases = []
        while not tk.eat(']'):
            cty = parse_type(tk, mod); cv = parse_value(tk, cty, mod); tk.expect(','); tk.expect('label'); I.cases.append((cv.v, tk.next()[1:]))
    elif op == 'ret':
        ty = parse_type(tk, mod); I.ty = ty; I.v = None if ty.kind == 'void' else parse_value(tk, ty, mod)
    elif op == 'phi':
        ty = parse_type(tk, mod); I.ty = ty; I.inc = []
        while True:
            tk.expect('['); v = parse_value(tk, ty, mod); tk.expect(','); l = tk.next()[1:]; tk.expect(']'); I.inc.append((v, l))
            if not tk.eat(','): break
    elif op in ('fadd', 'fsub', 'fmul', 'fdiv', 'frem', 'add', 'sub', 'mul', 'shl', 'lshr', 'ashr', 'and', 'or', 'xor',
                'sdiv', 'udiv', 'srem', 'urem'):
        skip_attrs(tk); ty = parse_type(tk, mod); I.ty = ty; I.a = parse_value(tk, ty, mod); tk.expect(','); I.b = parse_value(tk, ty, mod)
    elif op == 'fneg':
        skip_attrs(tk); ty = parse_type(tk, mod); I.ty = ty; I.a = parse_value(tk, ty, mod)
    elif op in ('fcmp', 'icmp'):
        skip_attrs(tk); I.pred = tk.next(); ty = parse_type(tk, mod); I.ty = ty; I.a = parse_value(tk, ty, mod); tk.expect(','); I.b = parse_value(tk, ty, mod)
    elif op in ('sext', 'zext', 'trunc', 'sitofp', 'uitofp', 'fptosi', 'fptoui', 'bitcast', 'ptrtoint', 'inttoptr', 'fpext', 'fptrunc'):
        ty = parse_type(tk, mod); I.ty = ty; I.a = parse_value(tk, ty, mod); tk.expect('to'); I.to = parse_type(tk, mod)
    elif op == 'select':
        skip_attrs(tk); cty = parse_type(tk, mod); I.c = parse_value(tk, cty, mod); tk.expect(','); ty = parse_type(tk, mod); I.ty = ty
        I.a = parse_value(tk, ty, mod); tk.expect(','); ty2 = parse_type(tk, mod); I.b = parse_value(tk, ty2, mod)
    elif op == 'getelementptr':
        skip_attrs(tk); I.bty = parse_type(tk, mod); tk.expect(','); pty = parse_type(tk, mod); I.base = parse_value(tk, pty, mod); I.idx = []
        while tk.eat(','):
            skip_attrs(tk); ity = parse_type(tk, mod); I.idx.append((ity, parse_value(tk, ity, mod)))
    elif op == 'load':
        skip_attrs(tk); I.ty = parse_type(tk, mod); tk.expect(','); pty = parse_type(tk, mod); I.p = parse_value(tk, pty, mod)
    elif op == 'store':
        skip_attrs(tk); I.ty = parse_type(tk, mod); I.v = parse_value(tk, I.ty, mod); tk.expect(','); pty = parse_type(tk, mod); I.p = parse_value(tk, pty, mod)
    elif op == 'alloca':
        skip_attrs(tk); I.ty = parse_type(tk, mod)
    elif op in ('call', 'invoke'):
        skip_attrs(tk); rty = parse_type(tk, mod)
        if rty.kind == 'func': rty = rty.ret if False else rty
        I.rty = rty.ret if rty.kind == 'ptr' and rty.to.kind == 'func' else (rty.ret if rty.kind == 'func' else rty)
        if rty.kind == 'ptr' and rty.to.kind == 'func': I.rty = rty.to.ret
        I.callee = parse_value(tk, None, mod); I.args = parse_args(tk, mod)
        if op == 'invoke':
            rest = tk.t[tk.i:]
            ls = [x[1:] for k, x in enumerate(rest) if x.startswith('%') and k > 0 and rest[k - 1] == 'label']
            I.normal, I.unwind = ls[0], ls[1]
    elif op in ('insertvalue',):
        ty = parse_type(tk, mod); I.ty = ty; I.agg = parse_value(tk, ty, mod); tk.expect(','); ety = parse_type(tk, mod); I.v = parse_value(tk, ety, mod)
        I.idx = []
        while tk.eat(','): I.idx.append(int(tk.next()))
    elif op == 'extractvalue':
        ty = parse_type(tk, mod); I.ty = ty; I.agg = parse_value(tk, ty, mod); I.idx = []
        while tk.eat(','): I.idx.append(int(tk.next()))
    elif op in ('unreachable', 'landingpad', 'resume'):
        pass
    else:
        raise Unsupported('instruction ' + op + ': ' + st)
    return I


def compile_ir(path, incs, extra=(), cxx=False):
    cmd = (['clang++-14', '-std=c++17'] if cxx else ['clang-14']) + CLANG_FLAGS + list(incs) + list(extra) + [path, '-o', '-']
    r = subprocess.run(cmd, capture_output=True, text=True)
    if r.returncode != 0: raise Unsupported('clang failed on %s: %s' % (path, r.stderr[-2000:]))
    return r.stdout


# ----------------------------------------------------------------------------------------------- values
class P:
    """pointer value: guarded alternatives [(guard, target)], target None (null) or (obj, path tuple)"""
    __slots__ = ('alts',)
    def __init__(s, alts): s.alts = alts
    @staticmethod
    def null(): return P([(BoolVal(True), None)])
    @staticmethod
    def to(obj, path=(0,)): return P([(BoolVal(True), (obj, tuple(path)))])
    def is_null(s):
        return mk_or([g for g, t in s.alts if t is None])
    def single(s):
        live = [(g, t) for g, t in s.alts if not is_false(g)]
        if len(live) == 1: return live[0][1]
        return Ellipsis
    def __repr__(s): return 'P(%s)' % s.alts


def mk_or(xs):
    xs = [x for x in xs if not is_false(x)]
    if not xs: return BoolVal(False)
    if any(is_true(x) for x in xs): return BoolVal(True)
    return Or(*xs) if len(xs) > 1 else xs[0]


def mk_and(xs):
    xs = [x for x in xs if not is_true(x)]
    if not xs: return BoolVal(True)
    if any(is_false(x) for x in xs): return BoolVal(False)
    return And(*xs) if len(xs) > 1 else xs[0]


def ite(c, a, b):
    if is_true(c): return a
    if is_false(c): return b
    if a is b: return a
    if isinstance(a, P) or isinstance(b, P):
        if not isinstance(a, P) or not isinstance(b, P):
            if a is None: return b
            if b is None: return a
            raise Unsupported('merge of pointer and non-pointer')
        return P([(mk_and([c, g]), t) for g, t in a.alts] + [(mk_and([Not(c), g]), t) for g, t in b.alts])
    if isinstance(a, list): return [ite(c, x, y) for x, y in zip(a, b)]
    if a is None: return b
    if b is None: return a
    if isinstance(a, z3.ExprRef) and isinstance(b, z3.ExprRef):
        if a.eq(b): return a
        return If(c, a, b)
    raise Unsupported('ite of %r %r' % (type(a), type(b)))


def conc(v):
    """python int of a concrete bit-vector (signed), else None"""
    if isinstance(v, int): return v
    if is_bv_value(v):
        return v.as_signed_long()
    s = simplify(v)
    if is_bv_value(s): return s.as_signed_long()
    return None


_INTERN = {}   # keeps every expression whose ast id is used as a key alive, so that ids are never recycled


def sid(e):
    e = simplify(e)
    k = e.get_id()
    _INTERN[k] = e
    return k


def key_of(path):
    out = []
    for p in path:
        c = conc(p) if not isinstance(p, int) else p
        out.append(c if c is not None else 's%d' % sid(p))
    return tuple(out)


class State:
    """pc is kept as a list of conjuncts so that merges can factor the common prefix (keeps terms small)"""
    __slots__ = ('pcl', 'mem', 'env', 'cnt', '_pc')
    def __init__(s, pc, mem=None, env=None, cnt=None):
        if isinstance(pc, list): s.pcl = list(pc)
        elif is_true(pc): s.pcl = []
        else: s.pcl = [pc]
        s._pc = None
        s.mem = mem if mem is not None else {}; s.env = env if env is not None else {}
        s.cnt = cnt if cnt is not None else {}
    @property
    def pc(s):
        if s._pc is None: s._pc = mk_and(s.pcl)
        return s._pc
    @pc.setter
    def pc(s, v):
        s.pcl = [] if is_true(v) else [v]; s._pc = None
    def extend(s, cond):
        n = State(s.pcl, dict(s.mem), dict(s.env), dict(s.cnt))
        if not is_true(cond): n.pcl.append(cond)
        return n
    def copy(s): return State(s.pcl, dict(s.mem), dict(s.env), dict(s.cnt))


def merge_states(sts, ev):
    """merge a list of states (disjoint path conditions); the common prefix of their conjunct lists is factored"""
    sts = [s for s in sts if not any(is_false(c) for c in s.pcl)]
    if not sts: return None
    if len(sts) == 1: return sts[0]
    n = 0
    m = min(len(s.pcl) for s in sts)
    while n < m and all(s.pcl[n].eq(sts[0].pcl[n]) for s in sts[1:]): n += 1
    common = sts[0].pcl[:n]
    rests = [mk_and(s.pcl[n:]) for s in sts]
    out = sts[-1].copy()
    for s, c in zip(reversed(sts[:-1]), reversed(rests[:-1])):
        for k in set(out.env) | set(s.env):
            a = s.env.get(k); b = out.env.get(k)
            if a is None and b is None: continue
            if a is b: continue
            try: out.env[k] = ite(c, a, b)
            except Unsupported: out.env[k] = None
        for k in set(out.mem) | set(s.mem):
            a = s.mem[k] if k in s.mem else ev.initial(k, like=out.mem.get(k))
            b = out.mem[k] if k in out.mem else ev.initial(k, like=s.mem.get(k))
            if a is b: continue
            out.mem[k] = ite(c, a, b)
        for k in set(out.cnt) | set(s.cnt):
            a = s.cnt.get(k, z3.IntVal(0)); b = out.cnt.get(k, z3.IntVal(0))
            out.cnt[k] = a if a.eq(b) else If(c, a, b)
    d = mk_or(rests)
    if not (is_true(d) or is_false(d)):
        d = simplify(d)
    out.pcl = common + ([] if is_true(d) else [d]); out._pc = None
    return out


class Prim:
    """contract of a primitive (callee not inlined): UF over its non-pointer arguments"""
    def __init__(s, kind='xrl', nonneg=True, sorts=None, errcode=None, post=None):
        s.kind = kind; s.nonneg = nonneg; s.sorts = sorts; s.errcode = errcode; s.post = post


class Eval:
    def __init__(s, mod, prims=None, unroll=64, inline_depth=12):
        s.mod = mod; s.prims = prims or {}; s.unroll = unroll; s.inline_depth = inline_depth
        s.ufs = {}; s.axioms = []; s.oblig = []; s.accesses = []; s.calls = []; s.fresh = itertools.count()
        s.init_cache = {}; s.objinfo = {}; s.loopinfo = {}
        s.unwind_exceeded = []       # (pc, where): paths cut by the unroll bound -> obligation "unreachable"
        s.hooks = {}                 # callee name -> python function(ev, state, args, instr) -> value
        s.nalloca = 0; s.depth = 0
        s.solver_checks = 0
        s.loop_inv = {}; s.loop_havoc = {}
        s.array_objs = {}
        s.zeroed = set(); s.heap_objs = []
        s.static_reads = []
        s.shadows = {}               # ast id of a wrap-free integer value -> (value, real-valued shadow)
        s.branch_preds = {}          # symbolic branch conditions met during evaluation (for automatic case splits)

    # ---------------------------------------------------------------- helpers
    def uf(s, name, sorts, ret):
        k = (name, tuple(str(x) for x in sorts), str(ret))
        if k not in s.ufs: s.ufs[k] = Function(name, *sorts, ret)
        return s.ufs[k]

    def sort_of(s, ty):
        ty = resolve(ty, s.mod)
        if ty.kind == 'int': return z3.BoolSort() if ty.bits == 1 else BitVecSort(ty.bits)
        if ty.kind == 'fp': return RealSort()
        raise Unsupported('sort of %r' % ty)

    def fresh_of(s, ty, name):
        ty = resolve(ty, s.mod)
        n = '%s#%d' % (name, next(s.fresh))
        if ty.kind == 'int': return Bool(n) if ty.bits == 1 else BitVec(n, ty.bits)
        if ty.kind == 'fp': return Real(n)
        if ty.kind == 'ptr': return P.to('unk:' + n)
        raise Unsupported('fresh of %r' % ty)

    def const_val(s, c, ty, st=None):
        k = c.kind
        if k == 'local':
            v = st.env.get(c.name, Ellipsis)
            if v is Ellipsis: raise Unsupported('use of undefined %%%s' % c.name)
            return v
        if k == 'int':
            bits = resolve(ty, s.mod).bits if ty is not None and resolve(ty, s.mod).kind == 'int' else c.bits
            if bits == 1: return BoolVal(bool(c.v & 1))
            return BitVecVal(c.v, bits)
        if k == 'fp':
            import fractions
            return RealVal(str(fractions.Fraction(c.v))) if c.v == c.v and abs(c.v) != float('inf') else s.special_fp(c.v)
        if k == 'null': return P.null()
        if k == 'undef':
            if ty is None: return None
            rt = resolve(ty, s.mod)
            if rt.kind == 'struct': return [None] * len(rt.fields)
            return None
        if k == 'zero':
            rt = resolve(ty, s.mod)
            if rt.kind == 'int': return BitVecVal(0, rt.bits) if rt.bits > 1 else BoolVal(False)
            if rt.kind == 'fp': return RealVal(0)
            if rt.kind == 'ptr': return P.null()
            raise Unsupported('zeroinitializer operand')
        if k == 'global':
            if c.name in s.mod.funcs or c.name in s.mod.decls or (c.name in s.prims): return P.to('fn:' + c.name, ())
            return P.to('g:' + c.name, (0,))
        if k == 'gep':
            base = s.const_val(c.base, None, st)
            idx = [s.const_val(i, T('int', bits=64), st) for i in c.idx]
            return s.gep(base, idx)
        if k == 'cast':
            return s.const_val(c.v, None, st)
        raise Unsupported('constant kind ' + k)

    def special_fp(s, v):
        return Real('fp_special_%s' % ('nan' if v != v else ('pinf' if v > 0 else 'ninf')))

    def gep(s, base, idx):
        if not isinstance(base, P): raise Unsupported('gep on non-pointer')
        out = []
        for g, t in base.alts:
            if t is None: out.append((g, None)); continue
            obj, path = t
            path = list(path)
            if not path: path = [0]
            i0 = idx[0]
            path[-1] = s.addidx(path[-1], i0)
            for i in idx[1:]:
                path.append(i)
            out.append((g, (obj, tuple(s.normidx(p) for p in path))))
        return P(out)

    def normidx(s, p):
        if isinstance(p, int): return p
        c = conc(p)
        if c is not None: return c
        if p.size() < 64: p = SignExt(64 - p.size(), p)
        return simplify(p)

    def addidx(s, a, b):
        ca = a if isinstance(a, int) else conc(a); cb = b if isinstance(b, int) else conc(b)
        if ca is not None and cb is not None: return ca + cb
        def bv(x):
            if isinstance(x, int): return BitVecVal(x, 64)
            return SignExt(64 - x.size(), x) if x.size() < 64 else x
        return simplify(bv(a) + bv(b))

    # ---------------------------------------------------------------- memory
    def initial(s, key, like=None, ty=None):
        """initial content of location key=(obj, keypath) (value before any store)"""
        if key in s.init_cache: return s.init_cache[key]
        obj, kp = key
        info = s.objinfo.get(key)
        if info is None:
            if like is not None:
                v = s.fresh_like(like, 'init_%s' % (obj,))
            else: raise Unsupported('initial of unknown location %r' % (key,))
        else:
            v = s.load_initial(obj, info['path'], info['ty'], None)
        s.init_cache[key] = v
        return v

    def fresh_like(s, like, name):
        n = '%s#%d' % (name, next(s.fresh))
        if isinstance(like, P): return P.null()
        if is_bool(like): return Bool(n)
        if is_bv(like): return BitVec(n, like.size())
        if is_real(like): return Real(n)
        if z3.is_array(like): return z3.Const(n, like.sort())
        return None

    def root_of(s, obj):
        """(root name, index list) for an object reached through pointer loads from a global/arg"""
        if obj in s.derefs:
            pobj, ppath = s.derefs[obj]
            r, idx = s.root_of(pobj)
            return r, idx + [list(ppath)]
        return obj, []

    derefs = None

    def load_initial(s, obj, path, ty, st):
        rty = resolve(ty, s.mod)
        if s.derefs is None: s.derefs = {}
        if obj in s.zeroed:
            if rty.kind == 'ptr': return P.null()
            if rty.kind == 'fp': return RealVal(0)
            if rty.kind == 'int': return BoolVal(False) if rty.bits == 1 else BitVecVal(0, rty.bits)
        root, chain = s.root_of(obj)
        chain = chain + [list(path)]
        if root.startswith('g:'):
            gname = root[2:]; g = s.mod.globals.get(gname)
            if g is not None and g['init'] is not None and (g['const'] or gname in getattr(s, 'const_globals', ())) and len(chain) == 1:
                return s.read_const(g, path, rty, st)
            if g is not None and len(chain) == 1 and not (g['ext'] or g['init'] is not None) :
                pass
        # symbolic contents: UF over all indices of the chain
        flat = [i for lvl in chain for i in lvl]
        name = '%s|%s' % (root.split(':', 1)[1], '|'.join(str(len(l)) for l in chain))
        if root.startswith('g:') and len(chain) == 1:
            g = s.mod.globals.get(root[2:])
            if g is not None: s.bounds_oblig(g['ty'], path, st, root[2:])
        args = [BitVecVal(i, 64) if isinstance(i, int) else i for i in flat]
        if rty.kind == 'ptr':
            nobj = 'deref:%s:%s' % (obj, key_of(path))
            s.derefs[nobj] = (obj, tuple(path))
            isnull = s.uf(name + '|isnull', [BitVecSort(64)] * len(args), z3.BoolSort())(*args)
            if root in s.nonnull_roots or root.startswith('g:'):
                return P.to(nobj, (0,))
            return P([(isnull, None), (Not(isnull), (nobj, (0,)))])
        if rty.kind == 'int':
            rs = z3.BoolSort() if rty.bits == 1 else BitVecSort(rty.bits)
        elif rty.kind == 'fp': rs = RealSort()
        else: raise Unsupported('load of aggregate type %r' % rty)
        return s.uf(name, [BitVecSort(64)] * len(args), rs)(*args)

    nonnull_roots = ()

    def bounds_oblig(s, gty, path, st, gname):
        ty = resolve(gty, s.mod); conds = []
        p0 = path[0]
        if not (isinstance(p0, int) and p0 == 0):
            conds.append(p0 == 0 if not isinstance(p0, int) else BoolVal(False))
        for p in path[1:]:
            ty = resolve(ty, s.mod)
            if ty.kind == 'array':
                if isinstance(p, int):
                    if not (0 <= p < ty.n): conds.append(BoolVal(False))
                else: conds.append(And(p >= 0, p < ty.n))
                ty = ty.elem
            elif ty.kind == 'struct':
                ty = ty.fields[p if isinstance(p, int) else conc(p)]
            else: break
        if conds and st is not None:
            s.oblig.append((st.pc, mk_and(conds), 'index of @%s within its declared dimensions' % gname))

    def read_const(s, g, path, rty, st):
        """read from a constant-initialised global; symbolic indices -> If chain (with bounds obligation)"""
        def rec(c, ty, path):
            ty = resolve(ty, s.mod)
            if not path:
                if c.kind == 'zero':
                    return s.const_val(c, ty, st)
                if ty.kind in ('int', 'fp', 'ptr'): return s.const_val(c, ty, st)
                raise Unsupported('const read of aggregate')
            p = path[0]
            if ty.kind == 'array':
                def elem(i):
                    if c.kind == 'zero': return rec(C('zero', ty=ty.elem), ty.elem, path[1:])
                    return rec(c.elems[i], ty.elem, path[1:])
                if isinstance(p, int):
                    if not 0 <= p < ty.n:
                        s.oblig.append((st.pc if st else BoolVal(True), BoolVal(False), 'constant table index out of range'))
                        return elem(0)
                    return elem(p)
                if st is not None:
                    s.oblig.append((st.pc, And(p >= 0, p < ty.n), 'index into constant table within [0,%d)' % ty.n))
                v = elem(ty.n - 1)
                for i in range(ty.n - 2, -1, -1): v = ite(p == i, elem(i), v)
                return v
            if ty.kind == 'struct':
                i = p if isinstance(p, int) else conc(p)
                if c.kind == 'zero': return rec(C('zero', ty=ty.fields[i]), ty.fields[i], path[1:])
                return rec(c.elems[i], ty.fields[i], path[1:])
            raise Unsupported('const read through %r' % ty)
        p0 = path[0]
        if not (isinstance(p0, int) and p0 == 0): raise Unsupported('const global read with non-zero base index')
        return rec(g['init'], g['ty'], list(path[1:]))

    def load(s, st, ptr, ty, text=''):
        if not isinstance(ptr, P): raise Unsupported('load through non-pointer ' + text)
        res = None; first = True
        for g, t in ptr.alts:
            if is_false(g): continue
            if t is None:
                s.oblig.append((mk_and([st.pc, g]), BoolVal(False), 'NULL dereference in load: ' + text[:80])); continue
            obj, path = t
            if obj in s.array_objs:
                v = s.array_load(st, g, obj, path)
                res = v if first else ite(g, v, res); first = False
                continue
            key = (obj, key_of(path))
            s.accesses.append((mk_and([st.pc, g]), 'load', obj, path))
            if obj.startswith('g:'):
                gl = s.mod.globals.get(obj[2:])
                if gl is not None and not gl['const'] and not gl['ext']:
                    s.static_reads.append((mk_and([st.pc, g]), obj[2:]))      # mutable object with static storage defined in this unit
            stg = st if is_true(g) else State(st.pcl + [g], st.mem, st.env, st.cnt)   # obligations hold under this alternative's guard
            if key in st.mem: v = st.mem[key]
            else:
                v = s.sym_overlay(stg, obj, path, ty)
                if v is None:
                    if key not in s.init_cache:
                        s.objinfo[key] = dict(path=path, ty=ty)
                        s.init_cache[key] = s.load_initial(obj, path, ty, stg)
                    elif obj.startswith('g:') and len(path) > 1:
                        gg = s.mod.globals.get(obj[2:])
                        if gg is not None and (gg['init'] is None or not gg['const']): s.bounds_oblig(gg['ty'], path, stg, obj[2:])
                    v = s.init_cache[key]
            res = v if first else ite(g, v, res); first = False
        if first: raise Unsupported('load with no live target ' + text)
        return res

    def sym_overlay(s, st, obj, path, ty):
        """a load with a symbolic index from an object that has concrete-index stores: If-chain over them"""
        kp = key_of(path)
        if not any(isinstance(k, str) for k in kp): return None
        cands = [(k, v) for k, v in st.mem.items() if k[0] == obj and len(k[1]) == len(kp)]
        if not cands: return None
        s.objinfo[(obj, kp)] = dict(path=path, ty=ty)
        base = s.init_cache.get((obj, kp))
        if base is None:
            base = s.init_cache[(obj, kp)] = s.load_initial(obj, path, ty, st)
        v = base
        for k, val in cands:
            if any(isinstance(x, str) for x in k[1]): raise Unsupported('symbolic-index store aliasing')
            cond = mk_and([(p == kk) if not isinstance(p, int) else BoolVal(p == kk) for p, kk in zip(path, k[1])])
            v = ite(cond, val, v)
        return v

    def store(s, st, ptr, val, ty, text=''):
        if not isinstance(ptr, P): raise Unsupported('store through non-pointer')
        for g, t in ptr.alts:
            if is_false(g): continue
            if t is None:
                s.oblig.append((mk_and([st.pc, g]), BoolVal(False), 'NULL dereference in store: ' + text[:80])); continue
            obj, path = t
            if obj in s.array_objs:
                s.array_store(st, g, obj, path, val); continue
            if obj.startswith('g:') :
                s.global_writes.append((mk_and([st.pc, g]), obj, path))
            key = (obj, key_of(path))
            if any(isinstance(k, str) for k in key[1]):
                raise Unsupported('store with symbolic index: ' + text[:100])
            s.accesses.append((mk_and([st.pc, g]), 'store', obj, path))
            if is_true(g): st.mem[key] = val
            else:
                if key in st.mem: old = st.mem[key]
                else:
                    if key not in s.init_cache:
                        s.objinfo[key] = dict(path=path, ty=ty)
                        try: s.init_cache[key] = s.load_initial(obj, path, ty, st)
                        except Unsupported: s.init_cache[key] = s.fresh_like(val, 'init')
                    old = s.init_cache[key]
                st.mem[key] = ite(g, val, old)

    global_writes = None

    def array_get(s, st, obj):
        ety, n = s.array_objs[obj]
        k = (obj, ('ARR',))
        if k in st.mem: return st.mem[k]
        if k not in s.init_cache:
            es = RealSort() if ety.kind == 'fp' else (z3.BoolSort() if ety.bits == 1 else BitVecSort(ety.bits))
            s.init_cache[k] = z3.Const('uninit_%s' % obj, z3.ArraySort(BitVecSort(64), es))
        return s.init_cache[k]

    def array_idx(s, st, g, obj, path, what):
        ety, n = s.array_objs[obj]
        if len(path) != 2: raise Unsupported('array object addressed with path %r' % (path,))
        p0, idx = path
        if not (isinstance(p0, int) and p0 == 0): raise Unsupported('array object with non-zero base index')
        i = BitVecVal(idx, 64) if isinstance(idx, int) else idx
        c = simplify(And(i >= 0, i < n))
        if not is_true(c):
            s.oblig.append((mk_and([st.pc, g]), c, 'index into local array of %d elements within bounds (%s) in %s' % (n, what, obj.split('#')[0][2:])))
        return i

    def array_load(s, st, g, obj, path):
        i = s.array_idx(st, g, obj, path, 'load')
        return z3.Select(s.array_get(st, obj), i)

    def array_store(s, st, g, obj, path, val):
        i = s.array_idx(st, g, obj, path, 'store')
        a = s.array_get(st, obj)
        na = z3.Store(a, i, val)
        st.mem[(obj, ('ARR',))] = na if is_true(g) else If(g, na, a)

    # ---------------------------------------------------------------- function evaluation
    def loops(s, f):
        """natural loops of f: header -> set(blocks); computed from back edges found by DFS (reducible CFGs)"""
        if f.name in s.loopinfo: return s.loopinfo[f.name]
        succ = {b: s.succs(f, b) for b in f.order}
        pred = {b: [] for b in f.order}
        for b, ss in succ.items():
            for t in ss: pred[t].append(b)
        # dominators (iterative)
        order = []; seen = set()
        def dfs(b):
            seen.add(b)
            for t in succ[b]:
                if t not in seen: dfs(t)
            order.append(b)
        import sys
        sys.setrecursionlimit(10000)
        dfs(f.entry); rpo = list(reversed(order)); idx = {b: i for i, b in enumerate(rpo)}
        dom = {b: set(rpo) for b in rpo}; dom[f.entry] = {f.entry}
        ch = True
        while ch:
            ch = False
            for b in rpo[1:]:
                ps = [dom[p] for p in pred[b] if p in idx]
                nd = set.intersection(*ps) | {b} if ps else {b}
                if nd != dom[b]: dom[b] = nd; ch = True
        loops = {}
        for b in rpo:
            for t in succ[b]:
                if t in dom[b]:  # back edge b->t
                    body = loops.setdefault(t, {t})
                    stack = [b]
                    while stack:
                        x = stack.pop()
                        if x not in body:
                            body.add(x); stack.extend(pred[x])
        info = dict(loops=loops, rpo=rpo, idx=idx, succ=succ, pred=pred)
        s.loopinfo[f.name] = info
        return info

    def succs(s, f, b):
        t = f.blocks[b][-1]
        if t.op == 'br': return list(dict.fromkeys(t.targets))
        if t.op == 'switch': return list(dict.fromkeys([t.default] + [l for _, l in t.cases]))
        if t.op == 'invoke': return [t.normal, t.unwind]
        return []

    def run(s, fname, args, st=None):
        """evaluate function fname on args from state st. returns (retval, state-after)"""
        if s.global_writes is None: s.global_writes = []
        if s.derefs is None: s.derefs = {}
        f = s.mod.funcs[fname]
        st = st or State(BoolVal(True))
        caller_env = st.env
        st = State(st.pcl, st.mem, dict(zip([p for p, _ in f.params], args)), st.cnt)
        s.depth += 1
        if s.depth > s.inline_depth: raise Unsupported('inline depth exceeded at ' + fname)
        info = s.loops(f)
        rets = []
        s.eval_region(f, set(f.order), f.entry, st, None, rets, info)
        s.depth -= 1
        if not rets:
            return None, State(BoolVal(False), {}, caller_env)
        # merge returns
        rs = [r for r in rets if not is_false(r[1].pc)]
        if not rs: return None, State(BoolVal(False), {}, caller_env)
        for v, r in rs: r.env = {'__ret': v}
        m = merge_states([r for _, r in rs], s)
        rv = m.env.get('__ret')
        m.env = caller_env
        return rv, m

    def eval_region(s, f, blocks, entry, st, loop_header, rets, info):
        """evaluate the acyclic region `blocks` (inner loops collapsed) starting at entry with state st.
        returns dict: outside-target -> list of edge states ; and for loop_header: key ('back',) -> states"""
        loops = info['loops']; idx = info['idx']
        # inner loops directly inside this region
        inner = {h: body for h, body in loops.items() if h in blocks and h != loop_header and body <= blocks}
        # maximal inner loops only
        tops = {h: b for h, b in inner.items() if not any(h in b2 and h2 != h and b < b2 or (h in b2 and h2 != h and b <= b2) for h2, b2 in inner.items())}
        owner = {}
        for h, body in tops.items():
            for b in body: owner[b] = h
        pending = {entry: [st]}   # block -> incoming edge states (phi already applied)
        outs = {}
        order = sorted(blocks, key=lambda b: idx.get(b, 1 << 30))
        done = set()
        for b in order:
            if b in owner and owner[b] != b: continue
            if b not in pending: continue
            inc = pending.pop(b)
            cur = merge_states(inc, s)
            if cur is None: continue
            if b in tops:
                edges = s.eval_loop(f, b, tops[b], cur, rets, info)
            else:
                edges = s.eval_block(f, b, cur, rets)
            for (src, tgt, est) in edges:
                if is_false(est.pc): continue
                est = s.apply_phis(f, src, tgt, est)
                if tgt == loop_header:
                    outs.setdefault(('back',), []).append(est)
                elif tgt in blocks:
                    if idx[tgt] <= idx[b] and not (b in tops):
                        raise Unsupported('irreducible or unexpected back edge %s->%s in %s' % (src, tgt, f.name))
                    pending.setdefault(tgt, []).append(est)
                else:
                    outs.setdefault(tgt, []).append(est)
        if pending:
            # targets with lower index that were never processed (should not happen in reducible CFGs)
            raise Unsupported('unprocessed blocks %s in %s' % (list(pending), f.name))
        return outs

    def eval_loop(s, f, header, body, st, rets, info):
        """dynamic unrolling with per-iteration merging. returns edge list (src, tgt, state) leaving the loop.
        If an invariant is registered for (function, header) the loop is cut instead (one symbolic iteration)."""
        if (f.name, header) in s.loop_inv:
            return s.eval_loop_cut(f, header, body, st, rets, info, s.loop_inv[(f.name, header)])
        exits = []
        cur = st; it = 0
        while cur is not None:
            if it >= s.unroll:
                s.unwind_exceeded.append((cur.pc, '%s loop at %%%s' % (f.name, header)))
                break
            outs = s.eval_region(f, body, header, cur, header, rets, info)
            back = outs.pop(('back',), [])
            for tgt, sts in outs.items():
                for e in sts: exits.append(('__loop__', tgt, e))
            nxt = merge_states(back, s) if back else None
            if nxt is not None:
                if not s.feasible(nxt.pc): nxt = None
            cur = nxt; it += 1
        return exits

    def eval_loop_cut(s, f, header, body, st, rets, info, spec):
        """cut-point mode: spec = dict(inv=fn(vals)->Bool, rank=fn(vals)->BV) over the header phi values (dict res->value).
        Obligations: invariant on entry; preserved by one iteration from ANY state satisfying it; rank decreases and
        stays >= 0.  Execution continues after the loop from the havocked state (invariant + exit condition)."""
        phis = [ins for ins in f.blocks[header] if ins.op == 'phi']
        init = {ins.res: st.env[ins.res] for ins in phis}
        s.oblig.append((st.pc, spec['inv'](init, st.env), 'loop invariant of %s holds on entry' % f.name))
        h = st.copy()
        fresh = {}
        for ins in phis:
            fresh[ins.res] = s.fresh_of(ins.ty, 'loop_%s_%s' % (f.name, ins.res)); h.env[ins.res] = fresh[ins.res]
        s.loop_havoc[(f.name, header)] = fresh
        inv_h = spec['inv'](fresh, h.env)
        h.pcl = h.pcl + [inv_h]; h._pc = None
        nstores = len([a for a in s.accesses if a[1] == 'store'])
        outs = s.eval_region(f, body, header, h, header, rets, info)
        if len([a for a in s.accesses if a[1] == 'store']) != nstores:
            raise Unsupported('cut-point mode: the loop body writes memory')
        back = outs.pop(('back',), [])
        for b in back:
            nxt = {ins.res: b.env[ins.res] for ins in phis}
            s.oblig.append((b.pc, spec['inv'](nxt, b.env), 'loop invariant of %s is preserved by one iteration' % f.name))
            r0 = spec['rank'](fresh, h.env); r1 = spec['rank'](nxt, b.env)
            s.oblig.append((b.pc, And(r1 < r0, r0 >= 0), 'ranking function of the %s loop decreases and is non-negative (termination)' % f.name))
        exits = []
        for tgt, sts in outs.items():
            for e in sts: exits.append(('__loop__', tgt, e))
        return exits

    def feasible(s, pc):
        pc2 = simplify(pc)
        if is_false(pc2): return False
        if is_true(pc2): return True
        sol = Solver(); sol.set('timeout', 3000)
        for a in s.axioms: sol.add(a)
        sol.add(pc2); s.solver_checks += 1
        return sol.check() != unsat

    def apply_phis(s, f, src, tgt, st):
        """st already is the edge state (phis applied in eval_block/eval_loop via pending marker)"""
        return st

    def edge_state(s, f, src, tgt, st, cond):
        """state for edge src->tgt under cond with phi nodes of tgt evaluated from src"""
        if is_false(cond) or any(is_false(c) for c in st.pcl): return None
        e = st.extend(cond)
        vals = {}
        for ins in f.blocks[tgt]:
            if ins.op != 'phi': break
            for v, l in ins.inc:
                if l == src:
                    vals[ins.res] = s.const_val(v, ins.ty, st); break
            else:
                raise Unsupported('phi without incoming for %s in %s' % (src, tgt))
        e.env.update(vals)
        return e

    def eval_block(s, f, b, st, rets):
        for ins in f.blocks[b]:
            op = ins.op
            if op == 'phi': continue
            if op == 'br':
                if ins.cond is None:
                    e = s.edge_state(f, b, ins.targets[0], st, BoolVal(True)); return [(b, ins.targets[0], e)] if e else []
                c = s.const_val(ins.cond, T('int', bits=1), st)
                c = simplify(c) if not (is_true(c) or is_false(c)) else c
                if not (is_true(c) or is_false(c)) and len(s.branch_preds) < 64:
                    s.branch_preds[c.get_id()] = c
                if ins.targets[0] == ins.targets[1]:
                    e = s.edge_state(f, b, ins.targets[0], st, BoolVal(True)); return [(b, ins.targets[0], e)] if e else []
                out = []
                for tgt, cc in ((ins.targets[0], c), (ins.targets[1], Not(c) if not is_true(c) and not is_false(c) else BoolVal(is_false(c)))):
                    e = s.edge_state(f, b, tgt, st, cc)
                    if e: out.append((b, tgt, e))
                return out
            if op == 'switch':
                v = s.const_val(ins.v, ins.ty, st); out = []; bits = resolve(ins.ty, s.mod).bits
                conds = {}
                alln = []
                for cv, l in ins.cases:
                    c = simplify(v == BitVecVal(cv, bits)); alln.append(c)
                    conds.setdefault(l, []).append(c)
                dflt = simplify(Not(mk_or(alln))) if alln else BoolVal(True)
                conds.setdefault(ins.default, []).append(dflt)
                for l, cs in conds.items():
                    e = s.edge_state(f, b, l, st, mk_or(cs))
                    if e: out.append((b, l, e))
                return out
            if op == 'ret':
                v = None if ins.v is None else s.const_val(ins.v, ins.ty, st)
                rets.append((v, st)); return []
            if op == 'unreachable':
                thr = st.mem.get(('thrown', ('flag',)))
                if thr is not None and is_true(simplify(thr)):
                    rets.append((None, st)); return []          # exceptional exit: an exception was thrown on this path
                s.oblig.append((st.pc, BoolVal(False), 'unreachable executed in ' + f.name)); return []
            if op == 'invoke':
                v = s.do_call(f, ins, st)
                if ins.res: st.env[ins.res] = v
                thrown = st.env.pop('__thrown', None)
                out = []
                if thrown is None:
                    e = s.edge_state(f, b, ins.normal, st, BoolVal(True)); return [(b, ins.normal, e)] if e else []
                e = s.edge_state(f, b, ins.normal, st, Not(thrown))
                if e: out.append((b, ins.normal, e))
                e = s.edge_state(f, b, ins.unwind, st, thrown)
                if e: out.append((b, ins.unwind, e))
                return out
            if op == 'resume':
                rets.append((None, st)); st.env['__resumed'] = BoolVal(True); return []
            s.exec_instr(f, ins, st)
        raise Unsupported('block %s of %s without terminator' % (b, f.name))

    def exec_instr(s, f, ins, st):
        op = ins.op; env = st.env
        if op in ('fadd', 'fsub', 'fmul', 'fdiv'):
            a = s.const_val(ins.a, ins.ty, st); b = s.const_val(ins.b, ins.ty, st)
            if op == 'fdiv':
                s.oblig.append((st.pc, b != 0, 'fdiv denominator non-zero in %s: %s' % (f.name, ins.text[:60])))
                env[ins.res] = a / b
            else: env[ins.res] = {'fadd': lambda: a + b, 'fsub': lambda: a - b, 'fmul': lambda: a * b}[op]()
        elif op == 'fneg': env[ins.res] = -s.const_val(ins.a, ins.ty, st)
        elif op == 'fcmp':
            a = s.const_val(ins.a, ins.ty, st); b = s.const_val(ins.b, ins.ty, st); p = ins.pred
            if p in ('true', 'false'): env[ins.res] = BoolVal(p == 'true')
            elif p == 'ord': env[ins.res] = BoolVal(True)
            elif p == 'uno': env[ins.res] = BoolVal(False)
            else: env[ins.res] = {'lt': a < b, 'gt': a > b, 'le': a <= b, 'ge': a >= b, 'eq': a == b, 'ne': a != b}[p[1:]]
        elif op == 'icmp':
            rt = resolve(ins.ty, s.mod)
            a = s.const_val(ins.a, ins.ty, st); b = s.const_val(ins.b, ins.ty, st); p = ins.pred
            if rt.kind == 'ptr': env[ins.res] = s.ptr_cmp(a, b, p)
            else:
                if is_bool(a): a = If(a, BitVecVal(1, 1), BitVecVal(0, 1)); b = If(b, BitVecVal(1, 1), BitVecVal(0, 1)) if is_bool(b) else b
                r = {'eq': lambda: a == b, 'ne': lambda: a != b, 'slt': lambda: a < b, 'sgt': lambda: a > b, 'sle': lambda: a <= b, 'sge': lambda: a >= b,
                     'ult': lambda: ULT(a, b), 'ugt': lambda: UGT(a, b), 'ule': lambda: ULE(a, b), 'uge': lambda: UGE(a, b)}[p]()
                env[ins.res] = simplify(r)
        elif op in ('add', 'sub', 'mul', 'shl', 'lshr', 'ashr', 'and', 'or', 'xor', 'sdiv', 'udiv', 'srem', 'urem'):
            a = s.const_val(ins.a, ins.ty, st); b = s.const_val(ins.b, ins.ty, st)
            if is_bool(a) or is_bool(b):
                a = a if is_bool(a) else (a == 1); b = b if is_bool(b) else (b == 1)
                r = {'and': lambda: And(a, b), 'or': lambda: Or(a, b), 'xor': lambda: z3.Xor(a, b), 'add': lambda: z3.Xor(a, b), 'sub': lambda: z3.Xor(a, b),
                     'mul': lambda: And(a, b)}[op]()
            else:
                if op in ('sdiv', 'udiv', 'srem', 'urem'):
                    s.oblig.append((st.pc, b != 0, 'integer division by zero in ' + f.name))
                r = {'add': lambda: a + b, 'sub': lambda: a - b, 'mul': lambda: a * b, 'shl': lambda: a << b, 'lshr': lambda: LShR(a, b), 'ashr': lambda: a >> b,
                     'and': lambda: a & b, 'or': lambda: a | b, 'xor': lambda: a ^ b, 'sdiv': lambda: a / b, 'udiv': lambda: z3.UDiv(a, b),
                     'srem': lambda: z3.SRem(a, b), 'urem': lambda: z3.URem(a, b)}[op]()
                nsw = 'nsw' in ins.text.split(resolve(ins.ty, s.mod).__repr__())[0]
                if nsw and op in ('add', 'sub', 'mul'):
                    s.nsw_oblig(st, op, a, b, f, ins)
                rs = simplify(r)
                if nsw and op in ('add', 'sub', 'mul', 'shl') and not is_bv_value(rs):
                    # real-valued shadow of a wrap-free integer result (used by sitofp; independent of the simplifier's normal forms)
                    ra, rb = s.int2real(a), s.int2real(b)
                    if op == 'shl':
                        cb = conc(b)
                        sh = ra * RealVal(2 ** cb) if cb is not None and 0 <= cb < 62 else None
                    else: sh = {'add': lambda: ra + rb, 'sub': lambda: ra - rb, 'mul': lambda: ra * rb}[op]()
                    if sh is not None: s.shadows[rs.get_id()] = (rs, sh)
                env[ins.res] = rs
                return
            env[ins.res] = simplify(r)
        elif op in ('sext', 'zext', 'trunc'):
            a = s.const_val(ins.a, ins.ty, st); tb = resolve(ins.to, s.mod).bits
            if is_bool(a):
                env[ins.res] = If(a, BitVecVal(-1 if op == 'sext' else 1, tb), BitVecVal(0, tb)) if tb > 1 else a
            elif op == 'trunc':
                env[ins.res] = simplify(Extract(tb - 1, 0, a)) if tb > 1 else simplify(Extract(0, 0, a) == 1)
            else:
                env[ins.res] = simplify(SignExt(tb - a.size(), a) if op == 'sext' else ZeroExt(tb - a.size(), a))
        elif op in ('sitofp', 'uitofp'):
            a = s.const_val(ins.a, ins.ty, st)
            if is_bool(a): env[ins.res] = If(a, RealVal(1) if op == 'uitofp' else RealVal(-1), RealVal(0))
            else:
                c = conc(a)
                if c is not None and op == 'sitofp': env[ins.res] = RealVal(c)
                else: env[ins.res] = s.int2real(a, op == 'sitofp')
        elif op in ('fpext', 'fptrunc'):
            env[ins.res] = s.const_val(ins.a, ins.ty, st)
        elif op in ('fptosi', 'fptoui'):
            raise Unsupported('fptosi')
        elif op in ('bitcast', 'inttoptr', 'ptrtoint'):
            if op != 'bitcast': raise Unsupported(op)
            env[ins.res] = s.const_val(ins.a, ins.ty, st)
        elif op == 'select':
            c = s.const_val(ins.c, T('int', bits=1), st); a = s.const_val(ins.a, ins.ty, st); b = s.const_val(ins.b, ins.ty, st)
            env[ins.res] = ite(simplify(c) if isinstance(c, z3.ExprRef) else c, a, b)
        elif op == 'getelementptr':
            base = s.const_val(ins.base, None, st)
            idx = [s.const_val(v, t, st) for t, v in ins.idx]
            env[ins.res] = s.gep(base, idx)
        elif op == 'load':
            env[ins.res] = s.load(st, s.const_val(ins.p, None, st), ins.ty, ins.text)
        elif op == 'store':
            s.store(st, s.const_val(ins.p, None, st), s.const_val(ins.v, ins.ty, st), ins.ty, ins.text)
        elif op == 'alloca':
            s.nalloca += 1
            obj = 'a:%s#%d' % (f.name, s.nalloca)
            aty = resolve(ins.ty, s.mod)
            if aty.kind == 'array' and resolve(aty.elem, s.mod).kind in ('int', 'fp'):
                s.array_objs[obj] = (resolve(aty.elem, s.mod), aty.n)      # local array: z3 Array (symbolic indices allowed)
            env[ins.res] = P.to(obj, (0,))
        elif op == 'call':
            v = s.do_call(f, ins, st)
            if ins.res: env[ins.res] = v
        elif op == 'insertvalue':
            agg = s.const_val(ins.agg, ins.ty, st)
            agg = list(agg) if agg is not None else [None] * len(resolve(ins.ty, s.mod).fields)
            if len(ins.idx) != 1: raise Unsupported('nested insertvalue')
            agg[ins.idx[0]] = s.const_val(ins.v, None, st); env[ins.res] = agg
        elif op == 'extractvalue':
            agg = s.const_val(ins.agg, ins.ty, st)
            if len(ins.idx) != 1: raise Unsupported('nested extractvalue')
            env[ins.res] = agg[ins.idx[0]]
        elif op == 'landingpad':
            env[ins.res] = [None, None]
        else:
            raise Unsupported('exec ' + op)

    def nsw_oblig(s, st, op, a, b, f, ins):
        n = a.size()
        A = SignExt(1, a); B = SignExt(1, b)
        if op == 'mul': A = SignExt(n, a); B = SignExt(n, b)
        r = {'add': A + B, 'sub': A - B, 'mul': A * B}[op]
        lo = BitVecVal(-(1 << (n - 1)), r.size()); hi = BitVecVal((1 << (n - 1)) - 1, r.size())
        c = simplify(And(r >= lo, r <= hi))
        if not is_true(c):
            s.oblig.append((st.pc, c, 'signed overflow (nsw %s) in %s: %s' % (op, f.name, ins.text[:50])))

    def int2real(s, a, signed=True):
        """sitofp: integer arithmetic below the conversion is translated to real arithmetic (add/sub/mul/neg wrap-free:
        the IR's nsw flags make wrapping undefined and are discharged as separate obligations); leaves stay BV2Int terms"""
        if not signed: return ToReal(BV2Int(a, is_signed=False))
        memo = {}
        def tr(x):
            k = x.get_id()
            if k in memo: return memo[k]
            if k in s.shadows and s.shadows[k][0].eq(x):
                memo[k] = s.shadows[k][1]; return memo[k]
            kind = x.decl().kind() if z3.is_app(x) else None
            if is_bv_value(x): r = RealVal(x.as_signed_long())
            elif kind == z3.Z3_OP_BMUL and x.num_args() >= 2:
                r = tr(x.arg(0))
                for i in range(1, x.num_args()): r = r * tr(x.arg(i))
            elif kind == z3.Z3_OP_BADD and x.num_args() >= 2:
                r = tr(x.arg(0))
                for i in range(1, x.num_args()): r = r + tr(x.arg(i))
            elif kind == z3.Z3_OP_BSUB and x.num_args() == 2: r = tr(x.arg(0)) - tr(x.arg(1))
            elif kind == z3.Z3_OP_BNEG: r = -tr(x.arg(0))
            elif kind == z3.Z3_OP_BNOT: r = -tr(x.arg(0)) - 1
            elif kind == z3.Z3_OP_SIGN_EXT: r = tr(x.arg(0))
            elif kind == z3.Z3_OP_BSHL and is_bv_value(x.arg(1)): r = tr(x.arg(0)) * RealVal(2 ** x.arg(1).as_long())
            elif (kind == z3.Z3_OP_CONCAT and x.num_args() == 2 and is_bv_value(x.arg(1)) and x.arg(1).as_long() == 0
                  and z3.is_app(x.arg(0)) and x.arg(0).decl().kind() == z3.Z3_OP_EXTRACT and x.arg(0).params()[1] == 0
                  and x.arg(0).params()[0] + 1 + x.arg(1).size() == x.size()):
                r = tr(x.arg(0).arg(0)) * RealVal(2 ** x.arg(1).size())      # simplify's form of x << n, i.e. x * 2^n (wrap-free by nsw)
            else: r = ToReal(BV2Int(x, is_signed=True))
            memo[k] = r; return r
        return tr(a)

    def ptr_cmp(s, a, b, p):
        if not isinstance(a, P) or not isinstance(b, P): raise Unsupported('pointer compare of non-pointers')
        eqs = []
        for g1, t1 in a.alts:
            for g2, t2 in b.alts:
                if t1 is None and t2 is None: eqs.append(mk_and([g1, g2]))
                elif t1 is None or t2 is None: continue
                elif t1[0] == t2[0] and len(t1[1]) == len(t2[1]):
                    cs = []
                    for x, y in zip(t1[1], t2[1]):
                        if isinstance(x, int) and isinstance(y, int):
                            cs.append(BoolVal(x == y))
                        else:
                            xx = BitVecVal(x, 64) if isinstance(x, int) else x; yy = BitVecVal(y, 64) if isinstance(y, int) else y
                            cs.append(xx == yy)
                    eqs.append(mk_and([g1, g2] + cs))
        e = mk_or(eqs)
        if p == 'eq': return e
        if p == 'ne': return Not(e) if not (is_true(e) or is_false(e)) else BoolVal(is_false(e))
        raise Unsupported('pointer compare ' + p)

    # ---------------------------------------------------------------- calls
    def do_call(s, f, ins, st):
        cal = ins.callee
        args = [s.const_val(v, t, st) for t, v in ins.args]
        if cal.kind == 'local':
            fp = st.env[cal.name]
            if not isinstance(fp, P): raise Unsupported('indirect call through non-pointer')
            live = [(g, t) for g, t in fp.alts if not is_false(g)]
            results = []
            for g, t in live:
                if t is None:
                    s.oblig.append((mk_and([st.pc, g]), BoolVal(False), 'call through NULL function pointer')); continue
                name = t[0][3:]
                sub = State(st.pcl + ([] if is_true(g) else [g]), dict(st.mem), {}, dict(st.cnt))
                rv = s.call_named(name, args, sub, ins, f)
                results.append((rv, sub))
            if not results: raise Unsupported('indirect call without targets')
            for rv, sub in results: sub.env = {'__ret': rv}
            m = merge_states([r for _, r in results], s)
            st.mem = m.mem; st.cnt = m.cnt
            return m.env.get('__ret')
        name = cal.name
        return s.call_named(name, args, st, ins, f)

    MATH1 = ('exp', 'log', 'sin', 'cos', 'tan', 'sqrt', 'asin', 'acos', 'atan', 'fabs', 'llvm.fabs.f64', 'log10', 'floor', 'ceil')

    def call_named(s, name, args, st, ins, f):
        s.calls.append((st.pc, name, args))
        if name in s.hooks:
            return s.hooks[name](s, st, args, ins)
        if name.startswith('llvm.lifetime') or name.startswith('llvm.dbg') or name in ('llvm.assume', 'llvm.experimental.noalias.scope.decl'):
            return None
        if name.startswith('llvm.memset'):
            ptr, val = args[0], args[1]
            t = ptr.single() if isinstance(ptr, P) else Ellipsis
            if t is not Ellipsis and t is not None and t[0] not in s.array_objs and conc(val) == 0 and t[0].startswith('a:'):
                s.zeroed.add(t[0]); return None           # zero-initialised local struct: unwritten fields read as 0 / NULL
            if t is Ellipsis or t is None or t[0] not in s.array_objs or conc(val) != 0:
                raise Unsupported('memset other than zeroing a whole local array')
            ety, n = s.array_objs[t[0]]
            zero = RealVal(0) if ety.kind == 'fp' else BitVecVal(0, ety.bits)
            st.mem[(t[0], ('ARR',))] = z3.K(BitVecSort(64), zero)
            return None
        if name in ('xrl_set_error_literal', 'xrl_set_error'):
            s.set_error(st, args[0], code=args[1], msg=args[2], how=name); return None
        if name == 'xrl_propagate_error':
            s.propagate_error(st, args[0], args[1]); return None
        if name == 'xrl_error_free':
            return None
        if name == 'xrl_clear_error':
            slot = args[0]
            for g, t in slot.alts:
                if t is not None: s.store(st, P([(g, t)]), P.null(), None)
            return None
        if name in s.prims:
            return s.call_prim(name, s.prims[name], args, st, ins)
        if name in s.MATH1 or name == 'pow' or name == 'llvm.pow.f64' or name == 'atan2':
            return s.call_math(name, args, st)
        if name in s.mod.funcs:
            rv, after = s.run(name, args, st)
            st.mem = after.mem; st.cnt = after.cnt
            if is_false(after.pc):
                st.pc = BoolVal(False)
            return rv
        raise Unsupported('call to unknown function %s (not a primitive, not defined in the loaded units)' % name)

    def call_math(s, name, args, st):
        x = args[0]
        nm = name.replace('llvm.', '').replace('.f64', '')
        if nm == 'fabs': return If(x >= 0, x, -x)
        if nm == 'sqrt': s.oblig.append((st.pc, x >= 0, 'sqrt argument non-negative'))
        if nm == 'log' or nm == 'log10': s.oblig.append((st.pc, x > 0, 'log argument positive'))
        if nm in ('asin', 'acos'): s.oblig.append((st.pc, And(x >= -1, x <= 1), nm + ' argument within [-1,1]'))
        if nm == 'pow' and z3.is_rational_value(simplify(args[1])) and simplify(args[1]).as_fraction() == 2:
            return x * x                                  # pow(x, 2) is exact squaring
        if nm in ('pow', 'atan2'):
            fn = s.uf('m_' + nm, [RealSort(), RealSort()], RealSort()); r = fn(x, args[1])
        else:
            fn = s.uf('m_' + nm, [RealSort()], RealSort()); r = fn(x)
        s.math_axioms(nm, args, r)
        return r

    def math_axioms(s, nm, args, r):
        x = args[0]
        if nm == 'exp': s.axioms.append(r > 0)
        elif nm == 'sqrt': s.axioms.append(And(r >= 0, Implies(x >= 0, r * r == x)))
        elif nm in ('sin', 'cos'): s.axioms.append(And(r >= -1, r <= 1))
        elif nm == 'asin':
            sin = s.uf('m_sin', [RealSort()], RealSort())
            s.axioms.append(Implies(And(x >= -1, x <= 1), sin(r) == x))      # sin(asin u) = u on [-1, 1]
        elif nm == 'pow' and False: pass

    def call_prim(s, name, prim, args, st, ins):
        if prim.kind == 'xrl':
            # double f(ints/doubles..., xrl_error **error): UF over non-pointer args, >= 0, 0 <=> error set
            vals = [a for a in args if not isinstance(a, P)]
            err = [a for a in args if isinstance(a, P)]
            sorts = [a.sort() for a in vals]
            r = s.uf(name, sorts, RealSort())(*vals)
            if prim.nonneg: s.axioms.append(r >= 0)
            if prim.post: s.axioms.extend(prim.post(s, vals, r))
            if err:
                s.set_error(st, err[-1], code=s.uf(name + '|errcode', sorts, BitVecSort(32))(*vals), msg=None, how='prim:' + name, when=(r == 0))
            return r
        if prim.kind == 'pure':
            vals = [a for a in args if not isinstance(a, P)]
            rs = RealSort() if resolve(ins.rty, s.mod).kind == 'fp' else s.sort_of(ins.rty)
            r = s.uf(name, [a.sort() for a in vals], rs)(*vals)
            if prim.post: s.axioms.extend(prim.post(s, vals, r))
            return r
        if prim.kind == 'custom':
            return prim.post(s, st, args, ins)
        raise Unsupported('prim kind')

    # ---------------------------------------------------------------- error machine
    def set_error(s, st, slotp, code=None, msg=None, how='', when=None):
        """*slot = new error if slot != NULL and *slot == NULL; counts attempts on non-empty slots"""
        when = BoolVal(True) if when is None else when
        if not isinstance(slotp, P): raise Unsupported('error slot is not a pointer')
        if msg is not None: s.check_msg(st, msg, how)
        for g, t in slotp.alts:
            if t is None or is_false(g): continue
            cur = s.load(st, P([(BoolVal(True), t)]), T('ptr', to=T('named', name='struct._xrl_error')))
            empty = cur.is_null()
            k = next(s.fresh)
            eobj = 'err:%d' % k
            cond = mk_and([g, when])
            newv = P.to(eobj, (0,))
            s.err_objs[eobj] = dict(code=code, how=how)
            if code is not None:
                cbv = code if not isinstance(code, int) else BitVecVal(code, 32)
                st.mem[(eobj, (0, 0))] = cbv
            st.mem[(eobj, (0, 1))] = P.to('msg:%d' % k, (0,))
            st.mem[(t[0], key_of(t[1]))] = ite(mk_and([cond, empty]), newv, cur)
            key = ('over', t[0], key_of(t[1]))
            st.cnt[key] = st.cnt.get(key, z3.IntVal(0)) + If(mk_and([cond, Not(empty)]), 1, 0)
            key = ('set', t[0], key_of(t[1]))
            st.cnt[key] = st.cnt.get(key, z3.IntVal(0)) + If(mk_and([cond, empty]), 1, 0)

    err_objs = None

    def check_msg(s, st, msg, how):
        """every possible message pointer is a non-empty string literal"""
        if not isinstance(msg, P):
            s.oblig.append((st.pc, BoolVal(False), 'error message is not a pointer (%s)' % how)); return
        for g, t in msg.alts:
            if is_false(g): continue
            if t is None:
                s.oblig.append((mk_and([st.pc, g]), BoolVal(False), 'error message is NULL (%s)' % how)); continue
            obj = t[0]; ok = False
            if obj.startswith('g:'):
                gl = s.mod.globals.get(obj[2:])
                if gl and gl['init'] is not None and gl['init'].kind == 'agg' and gl['init'].elems and gl['init'].elems[0].v != 0: ok = True
            if not ok:
                s.oblig.append((mk_and([st.pc, g]), BoolVal(False), 'error message is not a non-empty string literal (%s)' % how))

    def propagate_error(s, st, dest, src):
        """xrl_propagate_error(dest, src): src must be non-NULL; *dest = src if dest && !*dest"""
        s.oblig.append((st.pc, Not(src.is_null()), 'xrl_propagate_error: src is not NULL'))
        for g, t in dest.alts:
            if t is None or is_false(g): continue
            cur = s.load(st, P([(BoolVal(True), t)]), T('ptr', to=T('named', name='struct._xrl_error')))
            empty = cur.is_null()
            st.mem[(t[0], key_of(t[1]))] = ite(mk_and([g, empty]), src, cur)
            key = ('over', t[0], key_of(t[1]))
            st.cnt[key] = st.cnt.get(key, z3.IntVal(0)) + If(mk_and([g, Not(empty)]), 1, 0)
            key = ('set', t[0], key_of(t[1]))
            st.cnt[key] = st.cnt.get(key, z3.IntVal(0)) + If(mk_and([g, empty]), 1, 0)

    # ---------------------------------------------------------------- top level
    def call(s, fname, args, errslot=True, st=None):
        """evaluate an API function with an empty caller error slot (or NULL). returns Result"""
        if s.err_objs is None: s.err_objs = {}
        st = st or State(BoolVal(True))
        full = list(args)
        slot = None
        if errslot is not None:
            if errslot:
                slot = ('slot:%d' % next(s.fresh), (0,))
                st.mem[(slot[0], key_of(slot[1]))] = P.null()
                full.append(P([(BoolVal(True), slot)]))
            else:
                full.append(P.null())
        rv, after = s.run(fname, full, st)
        return Result(s, rv, after, slot)


def heap_prims():
    """malloc / calloc / free as custom primitives: fresh objects, per-object free counters (st.cnt[('free', obj)])"""
    def malloc(ev, st, args, ins):
        obj = 'm:%d' % next(ev.fresh)
        ev.heap_objs.append(obj)
        st.cnt[('alloc', obj)] = z3.IntVal(1)
        return P.to(obj, (0,))
    def free(ev, st, args, ins):
        p = args[0]
        if not isinstance(p, P): raise Unsupported('free of non-pointer')
        for g, t in p.alts:
            if t is None or is_false(g): continue
            k = ('free', t[0]); st.cnt[k] = st.cnt.get(k, z3.IntVal(0)) + If(g, 1, 0)
        return None
    return {'malloc': Prim(kind='custom', post=malloc), 'calloc': Prim(kind='custom', post=malloc), 'free': Prim(kind='custom', post=free)}


class Result:
    def __init__(s, ev, rv, st, slot):
        s.ev = ev; s.rv = rv; s.st = st; s.slot = slot
    @property
    def errset(s):
        """Bool: the caller's slot holds an error after the call"""
        v = s.st.mem[(s.slot[0], key_of(s.slot[1]))]
        return Not(v.is_null())
    @property
    def overwrites(s):
        return sum([v for k, v in s.st.cnt.items() if k[0] == 'over'], z3.IntVal(0))
    @property
    def sets_on_slot(s):
        return s.st.cnt.get(('set', s.slot[0], key_of(s.slot[1])), z3.IntVal(0))
    def errcode(s):
        v = s.st.mem[(s.slot[0], key_of(s.slot[1]))]
        out = None
        for g, t in v.alts:
            if t is None: continue
            c = s.st.mem.get((t[0], (0, 0)))
            if c is None: c = BitVec('code_of_' + t[0], 32)
            out = c if out is None else If(g, c, out)
        return out


# ----------------------------------------------------------------------------------------------- solving
def dbl(x):
    """exact real value of the IEEE double nearest to x (constants in the source are doubles)"""
    import fractions
    return RealVal(str(fractions.Fraction(float(x))))


def abstract_nl(fs):
    """replace non-linear real multiplication / division by uninterpreted functions (sound for proving: unsat of the
    abstraction implies unsat of the original). fs: list of formulas -> list of abstracted formulas"""
    R = RealSort(); MUL = Function('nl_mul', R, R, R); DIV = Function('nl_div', R, R, R)
    memo = {}
    def num(x): return z3.is_rational_value(x) or z3.is_int_value(x) or z3.is_algebraic_value(x)
    def walk(x):
        k = x.get_id()
        if k in memo: return memo[k]
        if not z3.is_app(x) or x.num_args() == 0:
            memo[k] = x; return x
        ch = [walk(c) for c in x.children()]
        kind = x.decl().kind()
        if kind == z3.Z3_OP_MUL and is_real(x):
            consts = [c for c in ch if num(c)]; others = [c for c in ch if not num(c)]
            if len(others) >= 2:
                others.sort(key=lambda c: c.get_id())
                r = others[0]
                for o in others[1:]: r = MUL(r, o)
                for c in consts: r = c * r
            else:
                r = ch[0]
                for c in ch[1:]: r = r * c
        elif kind == z3.Z3_OP_DIV and is_real(x):
            r = ch[0] / ch[1] if num(ch[1]) else DIV(ch[0], ch[1])
        else:
            try: r = x.decl()(*ch)
            except Exception: r = x
        memo[k] = r; return r
    keep = [simplify(f) for f in fs]      # keep alive: memo is keyed by ast id
    return [walk(f) for f in keep]


def ackermannize(fs, drop_bv=False, want_map=False):
    """generalise to pure real arithmetic (sound for proving): every uninterpreted-function application, every int->real
    conversion and every atom over bit-vectors becomes a fresh constant (congruence dropped)"""
    memo = {}; cache = {}
    def fresh(x):
        k = x.get_id(); r = cache.get(k)
        if r is None: r = cache[k] = (x, z3.Const('ack!%d' % len(cache), x.sort()))
        return r[1]
    def walk(x):
        k = x.get_id()
        if k in memo: return memo[k]
        if not z3.is_app(x) or x.num_args() == 0:
            memo[k] = x; return x
        kind = x.decl().kind()
        if kind == z3.Z3_OP_UNINTERPRETED or kind == z3.Z3_OP_TO_REAL or z3.is_array(x) or kind == z3.Z3_OP_SELECT:
            r = fresh(x)
        elif drop_bv and is_bool(x) and any(is_bv(c) for c in x.children()):
            r = fresh(x)
        else:
            ch = [walk(c) for c in x.children()]
            try: r = x.decl()(*ch)
            except Exception: r = x
        memo[k] = r; return r
    keep = [simplify(f) for f in fs]      # keep alive: memo is keyed by ast id
    out = [walk(f) for f in keep]
    if want_map: return out, cache, keep
    return out


def _solve(claim, assumptions, axioms, timeout, tactic, want_model=True):
    sol = Solver() if tactic is None else z3.Tactic(tactic).solver()
    sol.set('timeout', int(timeout * 1000))
    for a in axioms: sol.add(a)
    for a in assumptions: sol.add(a)
    if claim is not None: sol.add(Not(claim))
    r = sol.check()
    if r == unsat: return 'unsat', None
    if r == sat:
        m = sol.model(); out = {}
        try:
            for d in m.decls():
                out[d.name()] = str(m[d])[:600]
        except Exception as e:
            out['_model_error'] = repr(e)
        return 'sat', out
    return 'unknown', sol.reason_unknown()


def hard(fn, timeout):
    """run fn() in a forked child with a hard wall-clock limit (z3's own timeout is not reliable inside nlsat)"""
    import pickle, signal, select
    r, w = os.pipe()
    pid = os.fork()
    if pid == 0:
        os.close(r)
        try:
            res = fn()
        except Exception as e:
            res = ('unknown', 'exception: %r' % e)
        try:
            with os.fdopen(w, 'wb') as f: pickle.dump(res, f)
        finally:
            os._exit(0)
    os.close(w)
    t0 = time.time(); data = b''
    try:
        while True:
            left = timeout + 5 - (time.time() - t0)
            if left <= 0: break
            rl, _, _ = select.select([r], [], [], left)
            if not rl: break
            chunk = os.read(r, 1 << 16)
            if not chunk: break
            data += chunk
    finally:
        os.close(r)
        try: os.kill(pid, signal.SIGKILL)
        except Exception: pass
        try: os.waitpid(pid, 0)
        except Exception: pass
    if not data: return ('unknown', 'hard timeout after %ds' % timeout)
    try: return pickle.loads(data)
    except Exception as e: return ('unknown', 'result unreadable: %r' % e)


def resolve_arrays(fs, distinct_terms):
    """rewrite Select-over-Store chains given that the listed index terms are pairwise distinct (and syntactically equal
    indices are equal): Select(Store(a,i,v),j) -> v if i is j, -> Select(a,j) if i, j are distinct listed terms"""
    keep = [simplify(f) for f in fs]
    dset = {simplify(t).get_id(): simplify(t) for t in distinct_terms}
    memo = {}
    def sel(arr, j):
        while True:
            if z3.is_app(arr) and arr.decl().kind() == z3.Z3_OP_STORE:
                b, i, v = arr.arg(0), arr.arg(1), arr.arg(2)
                if i.eq(j): return walk(v)
                if (i.get_id() in dset and j.get_id() in dset) or (is_bv_value(i) and is_bv_value(j)): arr = b; continue
                return z3.Select(walk(arr), j)
            if z3.is_app(arr) and arr.decl().kind() == z3.Z3_OP_CONST_ARRAY: return walk(arr.arg(0))
            if z3.is_app(arr) and arr.decl().kind() == z3.Z3_OP_ITE:
                return If(walk(arr.arg(0)), sel(arr.arg(1), j), sel(arr.arg(2), j))
            return z3.Select(walk(arr), j)
    def walk(x):
        k = x.get_id()
        if k in memo: return memo[k]
        if not z3.is_app(x) or x.num_args() == 0: memo[k] = x; return x
        if x.decl().kind() == z3.Z3_OP_SELECT: r = sel(x.arg(0), walk(x.arg(1)))
        else:
            ch = [walk(c) for c in x.children()]
            try: r = x.decl()(*ch)
            except Exception: r = x
        memo[k] = r; return r
    return [simplify(walk(f)) for f in keep]


def _bv_only(e, memo):
    """True if the Boolean term mentions bit-vector variables and no reals / uninterpreted real functions"""
    k = e.get_id()
    if k in memo: return memo[k]
    if is_real(e) or is_int(e) or z3.is_array(e): r = False
    elif z3.is_app(e) and e.decl().kind() == z3.Z3_OP_UNINTERPRETED and e.num_args() > 0:
        r = is_bv(e) or is_bool(e)            # a bit-vector valued table cell is an opaque bit-vector leaf
        r = r and all(_bv_only(c, memo) for c in e.children())
    else: r = all(_bv_only(c, memo) for c in e.children())
    memo[k] = r; return r


def decide_bv_atoms(fs, timeout=5):
    """atoms over bit-vectors only whose truth value follows from the bit-vector-only conjuncts of the negated claim are
    replaced by that value (each decided by a small BV query); returns rewritten formulas"""
    keep = [simplify(f) for f in fs]
    memo = {}
    conj = []
    def top(e, pos=True):
        if z3.is_not(e): top(e.arg(0), not pos)
        elif pos and z3.is_and(e):
            for c in e.children(): top(c, True)
        elif not pos and z3.is_or(e):
            for c in e.children(): top(c, False)
        elif not pos and z3.is_implies(e):
            top(e.arg(0), True); top(e.arg(1), False)
        else: conj.append(e if pos else Not(e))
    for f in keep: top(f)
    bvc = [c for c in conj if _bv_only(c, memo) and any(True for _ in [0])]
    bvc = [c for c in bvc if _has_bv(c)]
    atoms = {}
    def collect(e, seen):
        if e.get_id() in seen: return
        seen.add(e.get_id())
        if is_bool(e) and z3.is_app(e) and e.num_args() > 0 and _bv_only(e, memo) and _has_bv(e): atoms[e.get_id()] = e; return   # maximal BV-only Boolean subformula
        for c in e.children(): collect(c, seen)
    seen = set()
    for f in keep: collect(f, seen)
    subs = []
    for a in atoms.values():
        sol = Solver(); sol.set('timeout', timeout * 1000)
        for c in bvc: sol.add(c)
        sol.push(); sol.add(Not(a))
        if sol.check() == unsat: subs.append((a, BoolVal(True))); continue
        sol.pop(); sol.add(a)
        if sol.check() == unsat: subs.append((a, BoolVal(False)))
    if not subs: return keep
    return [simplify(z3.substitute(f, *subs)) for f in keep]


def generalize_to_bv(fs):
    keep = [simplify(f) for f in fs]; memo = {}; bmemo = {}; cache = {}
    def walk(x):
        k = x.get_id()
        if k in memo: return memo[k]
        if is_bool(x) and z3.is_app(x) and x.num_args() > 0 and not (z3.is_and(x) or z3.is_or(x) or z3.is_not(x) or z3.is_implies(x)
                                                                       or (x.decl().kind() == z3.Z3_OP_ITE) or (z3.is_eq(x) and is_bool(x.arg(0)))):
            if _bv_only(x, bmemo): r = x
            else:
                r = cache.get(k)
                if r is None: r = cache[k] = Bool('gen!%d' % len(cache))
        elif is_bool(x) and z3.is_app(x) and x.num_args() > 0:
            r = x.decl()(*[walk(c) for c in x.children()])
        else: r = x
        memo[k] = r; return r
    return [walk(f) for f in keep]


def _has_bv(e, seen=None):
    seen = set() if seen is None else seen
    if e.get_id() in seen: return False
    seen.add(e.get_id())
    if is_bv(e): return True
    return any(_has_bv(c, seen) for c in e.children())


def guided_refute(fs, budget=12, seed=0):
    """search for a counterexample by evaluating the (Ackermannised) negated claim on random small rational / integer points;
    a candidate is only a hint: it is CONFIRMED by the exact solver query with every sampled term pinned to its value
    (so the verdict 'refuted' is still the solver's, on the original formula). returns model dict or None"""
    import random, fractions
    rnd = random.Random(seed)
    t0 = time.time()
    afs, cache, keep = ackermannize(fs, drop_bv=False, want_map=True)
    def consts_of(f):
        out = {}
        def coll(x, seen):
            if x.get_id() in seen: return
            seen.add(x.get_id())
            if z3.is_const(x) and x.decl().kind() == z3.Z3_OP_UNINTERPRETED: out[x.get_id()] = x
            for c in x.children(): coll(c, seen)
        coll(f, set()); return out
    main = afs[-1]                       # the negated claim; the other formulas are axioms / assumptions
    cmain = consts_of(main)
    cl = list(cmain.values())
    if not cl or len(cl) > 400: return None
    side = [f for f in afs[:-1] if set(consts_of(f)) <= set(cmain)]      # axioms fully determined by the sampled constants
    rvals = [fractions.Fraction(a, b) for a in (-3, -2, -1, 1, 2, 3, 5, 7) for b in (1, 2, 3, 5)] + [fractions.Fraction(0)]
    ivals = [-3, -2, -1, 0, 1, 2, 3, 4, 5, 13, 26, 29, 64, 82, 92, 120, 121]
    origin = {c.get_id(): o for o, c in cache.values()}
    tries = 0; confirmed = 0
    while time.time() - t0 < budget and tries < 5000:
        tries += 1
        sub = []
        for c in cl:
            o = origin.get(c.get_id())
            if is_real(c) and o is not None and z3.is_app(o) and o.decl().kind() == z3.Z3_OP_TO_REAL: v = RealVal(rnd.choice([-3, -2, -1, 0, 1, 2, 3, 5]))   # int -> real term
            elif is_real(c) and o is not None and z3.is_app(o) and o.decl().name() in ('m_sin', 'm_cos'): v = RealVal(str(rnd.choice([x for x in rvals if abs(x) <= 1])))
            elif is_real(c):
                prev = [x for _, x in sub if is_real(x)]
                if prev and rnd.random() < 0.25:
                    # near-coincidences (threshold / degenerate-interval bugs): another sampled value plus a tiny offset
                    v = simplify(rnd.choice(prev) + RealVal(str(rnd.choice([fractions.Fraction(0), fractions.Fraction(1, 10**9), fractions.Fraction(-1, 10**9), fractions.Fraction(1, 10**8)]))))
                else: v = RealVal(str(rnd.choice(rvals)))
            elif is_bv(c): v = BitVecVal(rnd.choice(ivals), c.size())
            elif is_bool(c): v = BoolVal(rnd.random() < 0.5)
            else: v = None
            if v is not None: sub.append((c, v))
        if not is_true(simplify(z3.substitute(main, *sub))): continue
        if any(is_false(simplify(z3.substitute(f, *sub))) for f in side): continue
        # candidate: confirm on the exact formulas with the sampled terms pinned (the solver completes the auxiliary symbols)
        pins = [origin.get(c.get_id(), c) == v for c, v in sub]
        res, m = hard(lambda: _solve(None, list(keep) + pins, (), 15, None), 15)
        confirmed += 1
        if res == 'sat': return m
        if confirmed >= 4: break
    return None


def prove(claim, assumptions=(), axioms=(), timeout=60, tactic=None, abstract=True):
    """returns ('proved', None) / ('refuted', model dict) / ('unknown', reason); hard wall-clock limit.
    Stage 1: non-linear products/quotients abstracted to uninterpreted functions (QF_UFLRA+BV): unsat there proves the
    claim.  Stage 2: generalisation to pure real arithmetic (UF applications, int->real conversions and undecided bit-vector
    atoms become fresh constants; bit-vector atoms decided by the bit-vector premises are replaced by their value) solved by
    nlsat.  Stage 3: the exact query, which is also the only source of counterexamples."""
    if abstract:
        def stage1():
            fs = abstract_nl(list(axioms) + list(assumptions) + [Not(claim)])
            return _solve(None, fs, (), min(timeout, 8), None)
        res, m = hard(stage1, min(timeout, 8))
        if res == 'unsat': return 'proved', None
        def stage2():
            fs = decide_bv_atoms(list(axioms) + list(assumptions) + [Not(claim)])
            fs = ackermannize(fs, drop_bv=True)
            return _solve(None, fs, (), min(timeout, 30), None)
        res, m = hard(stage2, min(timeout, 30))
        if res == 'unsat': return 'proved', None
        def stage2b():      # pure bit-vector generalisation: atoms that mention reals become fresh Booleans
            fs = generalize_to_bv(list(axioms) + list(assumptions) + [Not(claim)])
            return _solve(None, fs, (), min(timeout, 20), None)
        res, m = hard(stage2b, min(timeout, 20))
        if res == 'unsat': return 'proved', None
    res, m = hard(lambda: _solve(claim, assumptions, axioms, min(timeout, 40), tactic), min(timeout, 40))
    if res not in ('unsat', 'sat'):
        try:
            cex = guided_refute(list(axioms) + list(assumptions) + [Not(claim)])
        except Exception:
            cex = None
        if cex is not None: return 'refuted', cex
    return {'unsat': 'proved', 'sat': 'refuted'}.get(res, 'unknown'), m


def satisfiable(assumptions, axioms=(), timeout=30):
    res, m = hard(lambda: _solve(None, assumptions, axioms, timeout, None), timeout)
    return {'unsat': unsat, 'sat': sat}.get(res, unknown)
