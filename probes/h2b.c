#include "config.h"
#include "splint.h"
#include "xraylib-error-private.h"
#include <assert.h>
#include <math.h>
#include <stdlib.h>
int nondet_int(void); double nondet_double(void);
void harness_splint_inv(void) {
  int n = nondet_int(); __CPROVER_assume(n >= 1 && n <= 4096);
  double *xa = malloc(sizeof(double)*(n+1)); double *ya = malloc(sizeof(double)*(n+1)); double *y2a = malloc(sizeof(double)*(n+1));
  __CPROVER_assume(xa && ya && y2a);
  double x = nondet_double(); __CPROVER_assume(!isnan(x));
  /* tables contain no NaN (data invariant) */
  double y; xrl_error *err = 0;
  int rv = splint(xa, ya, y2a, n, x, &y, &err);
  int out = (x - xa[n] > 1E-7) || (x < xa[1]);
  if (out) { assert(rv == 0); assert(err != 0); assert(y == 0.0); } else { assert(rv == 1); assert(err == 0); }
}
