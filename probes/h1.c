#include "config.h"
#include "xrayglob.h"
#include "xraylib.h"
#include <assert.h>
#include <math.h>
double EdgeEnergy_arr[ZMAX+1][SHELLNUM];
int nondet_int(void);
void harness_edge(void) {
  int Z = nondet_int(), shell = nondet_int();
  xrl_error *err = 0;
  int inr = Z >= 1 && Z <= ZMAX && shell >= 0 && shell < SHELLNUM;
  if (inr) __CPROVER_assume(!isnan(EdgeEnergy_arr[Z][shell]));
  double r = EdgeEnergy(Z, shell, &err);
  int valid = inr && EdgeEnergy_arr[Z][shell] > 0.0;
  if (valid) { assert(err == 0); assert(r == EdgeEnergy_arr[Z][shell]); }
  else { assert(err != 0); assert(r == 0.0); assert(err->message != 0); assert(err->message[0] != 0); assert(err->code == XRL_ERROR_INVALID_ARGUMENT);}
#ifdef WITNESS
  assert(0);
#endif
}
