from z3 import *
import time
E,c,s2 = Reals('E c s2')
RE2=RealVal('0.07940775'); MEC2=RealVal('510.998928')
def KN(E,c):
    t1=(1-c)*E/MEC2; t2=1+t1
    return (RE2/2)*(1+c*c+t1*t1/t2)/t2/t2
def TH(c): return (RE2/2)*(1+c*c)
def CE(E,c): return E/(1+(E/MEC2)*(1-c))
dom=And(E>0, c>=-1, c<=1)
def prove(name, claim, *assm):
    s=Solver(); s.set('timeout',60000); s.add(*assm); s.add(Not(claim)); t=time.time(); r=s.check(); print(name, r, '%.2fs'%(time.time()-t)); 
    if r==sat: print(s.model())
prove('KN<=TH', KN(E,c)<=TH(c), dom)
prove('KN>0', KN(E,c)>0, dom)
prove('CE in range', And(CE(E,c)<=E, CE(E,c)>=E/(1+2*E/MEC2)), dom)
c2=Real('c2')
prove('CE monotone in c', CE(E,c)<=CE(E,c2), dom, c2>=c, c2<=1)
k=CE(E,c)/E
prove('KN = ratio form', KN(E,c)==(RE2/2)*k*k*(k+1/k-(1-c*c)), dom)
# unpolarised = azimuth average of polarised: DCSP_KN with cos^2 phi averaged -> 1/2
cp2=Real('cp2')
def KNP(E,c,cp2):
    k0k=1+(1-c)*E/MEC2; kk0=1/k0k
    return (RE2/2)*kk0*kk0*(kk0+k0k-2*(1-c*c)*cp2)
prove('avg KNP = KN', KNP(E,c,RealVal('1/2'))==KN(E,c), dom)
prove('avg ThP = Th', RE2*(1-(1-c*c)*RealVal('1/2'))==TH(c), dom)
