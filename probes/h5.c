#include "config.h"
#include "xrayglob.h"
#include "xraylib.h"
#include <assert.h>
#include <stdlib.h>
#include <string.h>
#include <locale.h>

int nondet_int(void); char nondet_char(void); double nondet_double(void);
#ifndef L
#define L 3
#endif
void *bsearch(const void *key, const void *base, size_t n, size_t size, int (*cmp)(const void *, const void *)) {
  for (size_t i = 0; i < n; i++) if (cmp(key, (const char*)base + i*size) == 0) return (void*)((const char*)base + i*size);
  return 0;
}
void qsort(void *base, size_t n, size_t size, int (*cmp)(const void *, const void *)) {
  char tmp[16]; char *a = base; __CPROVER_assert(size <= 16, "qsort model element size");
  for (size_t i = 1; i < n; i++) for (size_t j = i; j > 0 && cmp(a+(j-1)*size, a+j*size) > 0; j--) { memcpy(tmp, a+j*size, size); memcpy(a+j*size, a+(j-1)*size, size); memcpy(a+(j-1)*size, tmp, size); }
}
static const char *cur_locale = "X";
char *setlocale(int cat, const char *loc) { if (loc) cur_locale = loc; return (char*)cur_locale; }
double strtod(const char *s, char **end) { /* model: [0-9]*(.[0-9]*)? */
  double v = 0, f = 0.1; int i = 0, any = 0;
  while (s[i] >= '0' && s[i] <= '9') { v = v*10 + (s[i]-'0'); i++; any = 1; }
  if (s[i] == '.') { int j = i+1; while (s[j] >= '0' && s[j] <= '9') { v += (s[j]-'0')*f; f /= 10; j++; any = 1; } if (any) i = j; }
  if (!any) i = 0;
  if (end) *end = (char*)s + i; return v;
}
char *strndup(const char *s, size_t n) { size_t l = 0; while (l < n && s[l]) l++; char *d = malloc(l+1); __CPROVER_assume(d); for (size_t i=0;i<l;i++) d[i]=s[i]; d[l]=0; return d; }
extern struct MendelElement MendelArraySorted[MENDEL_MAX];
int compareMendelElements(const void *i1, const void *i2);
void harness_parse(void) {
  /* sorted Mendel table: built as xrayfiles.c does */
  for (int i = 0; i < MENDEL_MAX; i++) MendelArraySorted[i] = MendelArray[i];
  char s[L+1];
  for (int i = 0; i < L; i++) s[i] = nondet_char();
  s[L] = 0;
  xrl_error *err = 0;
  struct compoundData *cd = CompoundParser(s, &err);
  if (cd) { assert(err == 0); assert(cd->nElements >= 1);
    for (int i = 1; i < cd->nElements; i++) assert(cd->Elements[i-1] < cd->Elements[i]);
    FreeCompoundData(cd);
  } else assert(err != 0);
  if (err) xrl_error_free(err);
#ifdef WITNESS
  assert(0);
#endif
}
