#include "config.h"
#include "xrayglob.h"
#include "xraylib.h"
#include <assert.h>
extern double REF_LineEnergy[ZMAX+1][LINENUM];
int nondet_int(void);
void harness_le(void) {
  int Z = nondet_int(), line = nondet_int();
  __CPROVER_assume(line < -3 && line != -16 && line != -24 && line > -2000000000); /* non-group plain lines */
  __CPROVER_assume(line!=L1N67_LINE && line!=L1O45_LINE && line!=L1P23_LINE && line!=L2P23_LINE && line!=L3O45_LINE && line!=L3P23_LINE && line!=L3P45_LINE);
  xrl_error *err = 0;
  double r = LineEnergy(Z, line, &err);
  int inr = Z >= 1 && Z <= ZMAX && line <= -1 && line >= -LINENUM;
  int valid = inr && REF_LineEnergy[Z][-line-1] > 0.0;
  if (valid) { assert(err == 0); assert(r == REF_LineEnergy[Z][-line-1]); }
  else { assert(err != 0); assert(r == 0.0); }
#ifdef WITNESS
  assert(0);
#endif
}
