#include <xraylib.h>
#include <stdio.h>
int main(){ xrl_error *e=NULL; int Z; 
 for (Z=1;Z<=100;Z++){ for(int s=0;s<4;s++){ e=NULL; double jf=JumpFactor(Z,s,NULL); double ed=EdgeEnergy(Z,s,NULL); if(jf==1.0 && ed>0){ double v=CS_FluorShell(Z,s,ed+1.0,&e); printf("Z=%d shell=%d jump=%g edge=%g CS_FluorShell=%g err=%s\n",Z,s,jf,ed,v,e?e->message:"(none)"); } } }
 return 0;}
