#include "config.h"
#include "xrayglob.h"
#include "xraylib.h"
#include <assert.h>
#include <stdlib.h>
#include <string.h>
#include <math.h>
Crystal_Array Crystal_arr;
int nondet_int(void); char nondet_char(void); double nondet_double(void);
/* models for libc sort/search (CBMC has none): part of the claim */
void *bsearch(const void *key, const void *base, size_t n, size_t size, int (*cmp)(const void *, const void *)) {
  for (size_t i = 0; i < n; i++) if (cmp(key, (const char*)base + i*size) == 0) return (void*)((const char*)base + i*size);
  return 0;
}
void qsort(void *base, size_t n, size_t size, int (*cmp)(const void *, const void *)) {
  Crystal_Struct *a = base; /* only instantiation in this unit */
  for (size_t i = 1; i < n; i++) for (size_t j = i; j > 0 && cmp(&a[j-1], &a[j]) > 0; j--) { Crystal_Struct t = a[j]; a[j] = a[j-1]; a[j-1] = t; }
}
#define NAMELEN 2
#define MAXN 3
static char *mkname(void) { char *s = malloc(NAMELEN+1); __CPROVER_assume(s); for (int i=0;i<NAMELEN;i++){ s[i]=nondet_char(); __CPROVER_assume(s[i]=='a'||s[i]=='b'||s[i]=='c'); } s[NAMELEN]=0; return s; }
static void mkcrystal(Crystal_Struct *c) {
  c->name = mkname(); c->a=c->b=c->c=1.0; c->alpha=c->beta=c->gamma=90.0; c->volume=nondet_double();
  c->n_atom = 1; c->atom = malloc(sizeof(Crystal_Atom)); __CPROVER_assume(c->atom); c->atom[0].Zatom=14; c->atom[0].fraction=1; c->atom[0].x=c->atom[0].y=c->atom[0].z=0;
}
void harness_add(void) {
  int n = nondet_int(), cap = nondet_int();
  __CPROVER_assume(0 <= n && n <= cap && cap <= MAXN);
  Crystal_Array *arr = Crystal_ArrayInit(cap, 0);
  __CPROVER_assume(arr);
  for (int i = 0; i < n; i++) { mkcrystal(&arr->crystal[i]); if (i>0) __CPROVER_assume(strcmp(arr->crystal[i-1].name, arr->crystal[i].name) < 0); }
  arr->n_crystal = n;
  Crystal_Struct nc; mkcrystal(&nc);
  xrl_error *err = 0;
  int rv = Crystal_AddCrystal(&nc, arr, &err);
  int dup = 0; for (int i = 0; i < n; i++) if (strcmp(arr->crystal[i].name, nc.name)==0) dup = 1;
  if (rv) { assert(err==0); assert(arr->n_crystal == n+1); assert(arr->n_crystal <= arr->n_alloc);
    for (int i = 1; i < arr->n_crystal; i++) assert(strcmp(arr->crystal[i-1].name, arr->crystal[i].name) < 0);
  } else { assert(err!=0); assert(arr->n_crystal == n); }
#ifdef WITNESS
  assert(0);
#endif
}
