#include "config.h"
#include "xrayglob.h"
#include "xraylib.h"
#include <assert.h>
double EdgeEnergy_arr[ZMAX+1][SHELLNUM];
int nondet_int(void);
double EdgeEnergy(int Z, int shell, xrl_error **error)
__CPROVER_requires(error == 0 || (__CPROVER_is_fresh(error, sizeof(*error)) && *error == 0))
__CPROVER_assigns(error != 0: *error)
;
void harness_frame(void) {
  int Z = nondet_int(), shell = nondet_int();
  xrl_error **ep; 
  EdgeEnergy(Z, shell, ep);
}
