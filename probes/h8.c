#include "config.h"
#include "xrayglob.h"
#include "xraylib.h"
#include <assert.h>
#include <pthread.h>
double EdgeEnergy_arr[ZMAX+1][SHELLNUM];
int nondet_int(void);
static int Z1, S1, Z2, S2; static double r1, r2; static xrl_error *e1, *e2;
#ifdef SHARED_BUG
static double scratch;
#endif
void *t1(void *a) { r1 = EdgeEnergy(Z1, S1, &e1); return 0; }
void *t2(void *a) { r2 = EdgeEnergy(Z2, S2, &e2); return 0; }
void harness_thr(void) {
  Z1 = nondet_int(); S1 = nondet_int(); Z2 = nondet_int(); S2 = nondet_int();
  pthread_t a, b;
  pthread_create(&a, 0, t1, 0); pthread_create(&b, 0, t2, 0);
  pthread_join(a, 0); pthread_join(b, 0);
  if (Z1 == Z2 && S1 == S2) { assert(r1 == r2 || (r1 != r1)); assert((e1 == 0) == (e2 == 0)); }
}
