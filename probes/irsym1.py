# throw-away prototype 2: state-merging evaluator (one expression DAG per function), acyclic CFGs only
import re, sys, time
from z3 import *
def split_args(s):
    out=[];d=0;c=''
    for ch in s:
        if ch in '([{': d+=1
        if ch in ')]}': d-=1
        if ch==',' and d==0: out.append(c); c=''
        else: c+=ch
    if c.strip(): out.append(c)
    return out
class Fn: pass
def parse(path):
    fns={}; glob={}; cur=None
    for ln in open(path):
        ln=ln.rstrip('\n')
        m=re.match(r'define .*?@([\w.]+)\((.*)\) .*\{',ln)
        if m:
            cur=Fn(); cur.name=m.group(1); cur.blocks={}; cur.order=[]
            cur.params=[a.split()[-1][1:] for a in split_args(m.group(2))]
            lab=str(len(cur.params)); cur.blocks[lab]=[]; cur.order.append(lab); fns[cur.name]=cur; continue
        if cur is None:
            m=re.match(r'@([\w.]+) = .*\[(\d+) x (.*?)\] \[(.*)\]',ln)
            if m: glob[m.group(1)]=m.group(4)
            continue
        if ln=='}': cur=None; continue
        m=re.match(r'(\d+):',ln)
        if m: lab=m.group(1); cur.blocks[lab]=[]; cur.order.append(lab); continue
        if ln.strip(): cur.blocks[lab].append(ln.strip())
    return fns,glob
class St:  # error-slot machine, symbolic
    def __init__(s,nset=IntVal(0),over=IntVal(0)): s.nset=nset; s.over=over
def ite_st(c,a,b): return St(If(c,a.nset,b.nset),If(c,a.over,b.over))
class Ev:
    def __init__(s,fns,glob,prims): s.fns=fns; s.glob=glob; s.prims=prims; s.uf={}; s.axioms=[]; s.oblig=[]; s.ncalls=0
    def val(s,env,tok,ty):
        tok=tok.strip()
        if tok.startswith('%'): return env[tok[1:]]
        if ty=='double': return RealVal(str(float(tok)))
        if ty=='i1': return BoolVal(tok in('true','1'))
        return BitVecVal(int(tok),int(ty[1:]))
    def seterr(s,st,guard,slot):
        if slot==('null',): return st
        return St(st.nset+If(And(guard,st.nset==0),1,0), st.over+If(And(guard,st.nset>0),1,0))
    def call(s,callee,argv,st,pc):
        if callee in ('xrl_set_error_literal','xrl_set_error'): return None, s.seterr(st,BoolVal(True),argv[0])
        if callee in s.prims:
            if callee not in s.uf:
                s.uf[callee]=Function(callee,*[BitVecSort(32) if isinstance(a,BitVecRef) else RealSort() for a in argv[:-1]],RealSort())
            r=s.uf[callee](*argv[:-1]); s.axioms.append(r>=0); s.ncalls+=1
            return r, s.seterr(st,r==0,argv[-1])
        return s.run(callee,argv,st,pc)
    def run(s,fname,args,st0,pc0):
        f=s.fns[fname]; env=dict(zip(f.params,args))
        cond={f.order[0]:pc0}; stt={f.order[0]:st0}; edges={}  # edges[(p,b)]=(cond,state)
        rets=[]
        for lab in f.order:
            if lab!=f.order[0]:
                inc=[(p,c,t) for (p,b),(c,t) in edges.items() if b==lab]
                if not inc: continue
                cond[lab]=Or(*[c for _,c,_ in inc]) if len(inc)>1 else inc[0][1]
                cur=inc[-1][2]
                for p,c,t in reversed(inc[:-1]): cur=ite_st(c,t,cur)
                stt[lab]=cur
            pc=cond[lab]; st=stt[lab]
            for ln in f.blocks[lab]:
                m=re.match(r'%(\d+) = phi (\S+) (.*)',ln)
                if m:
                    alts=[(edges[(l,lab)][0], s.val(env,v,m.group(2))) for v,l in re.findall(r'\[ (\S+), %(\w+) \]',m.group(3)) if (l,lab) in edges]
                    cur=alts[-1][1]
                    for c,v in reversed(alts[:-1]): cur=If(c,v,cur)
                    env[m.group(1)]=cur; continue
                m=re.match(r'%(\d+) = (fadd|fsub|fmul|fdiv) double (\S+), (\S+)',ln)
                if m:
                    a=s.val(env,m.group(3),'double'); b=s.val(env,m.group(4),'double'); op=m.group(2)
                    if op=='fdiv': s.oblig.append((pc,b!=0,'fdiv in '+fname+': '+ln))
                    env[m.group(1)]={'fadd':a+b,'fsub':a-b,'fmul':a*b,'fdiv':a/b}[op]; continue
                m=re.match(r'%(\d+) = fcmp (\w+) double (\S+), (\S+)',ln)
                if m:
                    a=s.val(env,m.group(3),'double'); b=s.val(env,m.group(4),'double'); p=m.group(2)[1:]
                    env[m.group(1)]={'lt':a<b,'gt':a>b,'le':a<=b,'ge':a>=b,'eq':a==b,'ne':a!=b}[p]; continue
                m=re.match(r'%(\d+) = icmp (\w+) (i\d+) (\S+), (\S+)',ln)
                if m:
                    a=s.val(env,m.group(4),m.group(3)); b=s.val(env,m.group(5),m.group(3)); p=m.group(2)
                    env[m.group(1)]={'eq':a==b,'ne':a!=b,'slt':a<b,'sgt':a>b,'sle':a<=b,'sge':a>=b,'ult':ULT(a,b),'ugt':UGT(a,b),'ule':ULE(a,b),'uge':UGE(a,b)}[p]; continue
                m=re.match(r'%(\d+) = (add|sub|mul)(?: nsw| nuw)* (i\d+) (\S+), (\S+)',ln)
                if m:
                    a=s.val(env,m.group(4),m.group(3)); b=s.val(env,m.group(5),m.group(3)); env[m.group(1)]={'add':a+b,'sub':a-b,'mul':a*b}[m.group(2)]; continue
                m=re.match(r'%(\d+) = (and|or|xor) i1 (\S+), (\S+)',ln)
                if m:
                    a=s.val(env,m.group(3),'i1'); b=s.val(env,m.group(4),'i1'); env[m.group(1)]={'and':And(a,b),'or':Or(a,b),'xor':Xor(a,b)}[m.group(2)]; continue
                m=re.match(r'%(\d+) = select i1 (\S+), (\S+) (\S+), \S+ (\S+)',ln)
                if m: env[m.group(1)]=If(s.val(env,m.group(2),'i1'),s.val(env,m.group(4),m.group(3)),s.val(env,m.group(5),m.group(3))); continue
                m=re.match(r'%(\d+) = sext i32 (\S+) to i64',ln)
                if m: env[m.group(1)]=SignExt(32,s.val(env,m.group(2),'i32')); continue
                m=re.match(r'%(\d+) = getelementptr inbounds \[(\d+) x .*\* @(\w+), i64 0, i64 (\S+)',ln)
                if m:
                    idx=s.val(env,m.group(4),'i64'); s.oblig.append((pc,And(idx>=0,idx<int(m.group(2))),'bounds of @'+m.group(3)))
                    env[m.group(1)]=('gep',m.group(3),idx); continue
                m=re.match(r'%(\d+) = load .*\* %(\d+)',ln)
                if m: g=env[m.group(2)]; env[m.group(1)]=('fnptr',[x.strip().split('@')[-1] for x in split_args(s.glob[g[1]])],g[2]); continue
                m=re.match(r'(?:%(\d+) = )?call (\w+) (@[\w.]+|%\d+)\((.*)\)',ln)
                if m:
                    argv=[]
                    for a in split_args(m.group(4)):
                        a=re.sub(r'noundef|nonnull','',a).split(); ty=a[0]; tok=a[-1]
                        if ty.endswith('*'): argv.append(env[tok[1:]] if tok.startswith('%') else (('null',) if tok=='null' else ('const',tok)))
                        else: argv.append(s.val(env,tok,ty))
                    callee=m.group(3)
                    if callee.startswith('%'):
                        _,tbl,idx=env[callee[1:]]
                        res=[s.call(t,argv,st,And(pc,idx==k)) for k,t in enumerate(tbl)]
                        rv,ns=res[-1]
                        for k in range(len(tbl)-2,-1,-1): rv=If(idx==k,res[k][0],rv); ns=ite_st(idx==k,res[k][1],ns)
                    else: rv,ns=s.call(callee[1:],argv,st,pc)
                    st=ns
                    if m.group(1): env[m.group(1)]=rv
                    continue
                m=re.match(r'br i1 (\S+), label %(\w+), label %(\w+)',ln)
                if m:
                    c=s.val(env,m.group(1),'i1'); edges[(lab,m.group(2))]=(And(pc,c),st); edges[(lab,m.group(3))]=(And(pc,Not(c)),st); continue
                m=re.match(r'br label %(\w+)',ln)
                if m: edges[(lab,m.group(1))]=(pc,st); continue
                m=re.match(r'ret double (\S+)',ln)
                if m: rets.append((pc,s.val(env,m.group(1),'double'),st)); continue
                raise Exception('unsupported: '+ln)
        rv=rets[-1][1]; st=rets[-1][2]
        for c,v,t in reversed(rets[:-1]): rv=If(c,v,rv); st=ite_st(c,t,st)
        return rv,st
if __name__=='__main__':
    fns,glob=parse(sys.argv[1])
    ev=Ev(fns,glob,{'EdgeEnergy','JumpFactor','FluorYield','CosKronTransProb','CS_Photo','RadRate'})
    Z=BitVec('Z',32); shell=BitVec('shell',32); E=Real('E')
    t=time.time(); rv,st=ev.run('CS_FluorShell',[Z,shell,E,('slot',)],St(),BoolVal(True)); print('encode %.2fs, primitive call sites %d'%(time.time()-t,ev.ncalls))
    ee=ev.uf['EdgeEnergy']; jf=ev.uf['JumpFactor']; fy=ev.uf['FluorYield']; ck=ev.uf['CosKronTransProb']; ph=ev.uf['CS_Photo']
    B=lambda k: BitVecVal(k,32)
    eK,e1,e2,e3=[ee(Z,B(k)) for k in range(4)]; JK,J1,J2,J3=[jf(Z,B(k)) for k in range(4)]; w3=fy(Z,B(3))
    f12=ck(Z,B(1)); f13=ck(Z,B(2))+ck(Z,B(3)); f23=ck(Z,B(4))
    aK=And(eK>0,E>eK); a1=And(e1>0,E>e1); a2=And(e2>0,E>e2); a3=And(e3>0,E>e3)
    t1=If(a1,(J1-1)/J1,0); t2=If(a1,(J2-1)/(J2*J1),If(a2,(J2-1)/J2,0)); t3=If(a1,(J3-1)/(J3*J2*J1),If(a2,(J3-1)/(J3*J2),If(a3,(J3-1)/J3,0)))
    ok=And(Z>=1,Z<=120,E>0,Or(a1,a2,a3),Implies(aK,JK>0),Implies(a1,And(J1>0,J2>0,J3>0)),Implies(And(Not(a1),a2),And(J2>0,J3>0)),Implies(And(Not(a1),Not(a2),a3),J3>0),Implies(t2>0,f23>0),Implies(t1>0,And(f13>0,f12>0,f23>0)),w3>0, ph(Z,E)>0)
    ref=If(aK,1/JK,1)*(t3+t2*f23+t1*(f13+f12*f23))*w3*ph(Z,E)
    claims={'value when defined':Implies(And(ok,ref!=0),rv==ref),'fails when undefined':Implies(Not(ok),rv==0),'error iff sentinel':And((rv==0)==(st.nset==1),st.nset<=1),'no overwrite':st.over==0}
    for name,cl in claims.items():
        sol=Solver(); sol.set('timeout',120000); sol.add(*ev.axioms); sol.add(shell==3); sol.add(Not(cl)); t=time.time(); r=sol.check()
        print('%-22s %s %.2fs'%(name,r,time.time()-t)); 
        if r==sat:
            m=sol.model(); print('   model:', {str(d):m[d] for d in m.decls() if d.arity()==0})
    nb=0
    for pc,cl,what in ev.oblig:
        sol=Solver(); sol.set('timeout',60000); sol.add(*ev.axioms); sol.add(pc); sol.add(Not(cl))
        if sol.check()!=unsat: nb+=1; print('  OBLIGATION not proved:',what[:90])
    print('obligations',len(ev.oblig),'unproved',nb)
    print('--- case split over edge orderings, with DL2 invariant J in {0} U (1,inf)')
    import itertools
    inv=And(*[Or(J==0,J>1) for J in (JK,J1,J2,J3)])
    tot=0; t0=time.time(); res={}
    for bits in itertools.product([True,False],repeat=4):
        cs=[c if b else Not(c) for c,b in zip((aK,a1,a2,a3),bits)]
        for name,cl in (('value',Implies(And(ok,ref!=0),rv==ref)),('err',And((rv==0)==(st.nset==1),st.nset<=1))):
            sol=Solver(); sol.set('timeout',60000); sol.add(*ev.axioms); sol.add(inv); sol.add(shell==3); sol.add(*cs); sol.add(Not(cl)); r=sol.check(); tot+=1
            res[(bits,name)]=str(r)
    from collections import Counter
    print(Counter(res.values()), 'queries',tot,'%.1fs'%(time.time()-t0))
    for k,v in res.items():
        if v!='unsat': print(k,v)
    print('--- same, UF applications Ackermannised to Real constants (pure QF_NRA)')
    cache={}
    def ack(e):
        # replace applications of primitive UFs by constants keyed on the printed term
        subs=[]
        def walk(x):
            if is_app(x) and x.decl().name() in ev.uf and x.num_args()>0:
                k=x.sexpr()
                if k not in cache: cache[k]=Real('u_'+str(len(cache)))
                subs.append((x,cache[k])); return
            for c in x.children(): walk(c)
        walk(e); return substitute(e,*subs) if subs else e
    tot=0; t0=time.time(); res={}
    for bits in itertools.product([True,False],repeat=4):
        cs=[c if b else Not(c) for c,b in zip((aK,a1,a2,a3),bits)]
        for name,cl in (('value',Implies(And(ok,ref!=0),rv==ref)),('err',And((rv==0)==(st.nset==1),st.nset<=1))):
            f=And(And(*ev.axioms),inv,shell==3,And(*cs),Not(cl))
            sol=Solver(); sol.set('timeout',60000); sol.add(ack(f)); r=sol.check(); tot+=1; res[(bits,name)]=str(r)
    print(Counter(res.values()), 'queries',tot,'%.1fs'%(time.time()-t0))
    for k,v in res.items():
        if v!='unsat': print(k,v)
