#include <xraylib.h>
#include <stdio.h>
#include <locale.h>
#include <math.h>
#include <limits.h>
int main(){
  xrl_error *e=NULL;
  setlocale(LC_NUMERIC,"C.utf8");
  printf("before: %s\n", setlocale(LC_NUMERIC,NULL));
  struct compoundData *cd=CompoundParser("H2O",&e);
  printf("after: %s\n", setlocale(LC_NUMERIC,NULL));
  cd=CompoundParser("Rf",&e);
  printf("Rf: cd=%p err=%p mf=%g molar=%g\n",(void*)cd,(void*)e, cd?cd->massFractions[0]:-1, cd?cd->molarMass:-1);
  e=NULL;
  Crystal_Struct *cs=Crystal_GetCrystal("Si",NULL,&e);
  double b=Bragg_angle(cs,0.5,1,1,1,&e);
  printf("Bragg(Si,0.5keV,111)=%g err=%p\n",b,(void*)e);
  e=NULL;
  printf("LineEnergy L3P23 Z=92: %g ; L3O45: %g; L3P2 %g L3P3 %g\n", LineEnergy(92,L3P23_LINE,NULL), LineEnergy(92,L3O45_LINE,NULL), LineEnergy(92,L3P2_LINE,NULL), LineEnergy(92,L3P3_LINE,NULL));
  printf("CS_KN(1e-3)=%g CS_KN(1e-5)=%g  thomson tot=%g\n", CS_KN(1e-3,NULL), CS_KN(1e-5,NULL), 8*3.14159265/3*0.07940775);
  printf("DCS_Rayl(104,10,1)=%g\n", DCS_Rayl(104,10.0,1.0,&e)); printf("err=%p\n",(void*)e);
  e=NULL;
  printf("AtomicWeight(104)=%g  FF(104,0.1)=%g\n", AtomicWeight(104,NULL), FF_Rayl(104,0.1,NULL));
  printf("CS_Photo top: %g\n", CS_Photo(26, 1000.0*(1+1e-9), &e)); printf("err=%p\n",(void*)e);
  return 0;
}
