#include "config.h"
#include "splint.h"
#include "xraylib-error-private.h"
#include <assert.h>
#include <math.h>
int nondet_int(void); double nondet_double(void);
#ifndef NMAX
#define NMAX 8
#endif
void harness_splint(void) {
  double xa[NMAX+1], ya[NMAX+1], y2a[NMAX+1];
  int n = nondet_int(); __CPROVER_assume(n >= 2 && n <= NMAX);
  for (int i = 1; i <= NMAX; i++) { xa[i]=nondet_double(); ya[i]=nondet_double(); y2a[i]=nondet_double();
    __CPROVER_assume(!isnan(xa[i]) && !isinf(xa[i]) && !isnan(ya[i]) && !isnan(y2a[i]));
    if (i > 1 && i <= n) __CPROVER_assume(xa[i-1] < xa[i]); }
  double x = nondet_double(); __CPROVER_assume(!isnan(x));
  double y = 12345.0; xrl_error *err = 0;
  int rv = splint(xa, ya, y2a, n, x, &y, &err);
  int out = (x - xa[n] > 1E-7) || (x < xa[1]);
  if (out) { assert(rv == 0); assert(err != 0); assert(y == 0.0); }
  else {
    assert(rv == 1); assert(err == 0);
    int lo = 1; for (int k = 1; k < n; k++) if (xa[k] <= x) lo = k;   /* last knot <= x, capped at n-1 */
    int hi = lo + 1;
    double h = xa[hi]-xa[lo], a=(xa[hi]-x)/h, b=(x-xa[lo])/h;
    double ref = a*ya[lo] + b*ya[hi] + ((a*a*a-a)*y2a[lo] + (b*b*b-b)*y2a[hi])*(h*h)/6.0;
    assert(y == ref || (isnan(y) && isnan(ref)));
  }
#ifdef WITNESS
  assert(0);
#endif
}
