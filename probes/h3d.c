#include "config.h"
#include "xrayglob.h"
#include "xraylib.h"
#include "xraylib-error-private.h"
#include <assert.h>
#include <math.h>
double EdgeEnergy_arr[ZMAX+1][SHELLNUM];
double JumpFactor_arr[ZMAX+1][SHELLNUM];
double FluorYield_arr[ZMAX+1][SHELLNUM];
double CosKron_arr[ZMAX+1][TRANSNUM];
int nondet_int(void); double nondet_double(void);
/* stub: CS_Photo returns an arbitrary grid value >0, or 0 with error */
static double photo_val; static int photo_calls;
double CS_Photo(int Z, double E, xrl_error **error) {
  photo_calls++;
  if (photo_val == 0.0) { xrl_set_error_literal(error, XRL_ERROR_INVALID_ARGUMENT, "stub"); return 0.0; }
  return photo_val;
}
static int grid(double v, int lo, int hi) { int ok = 0; for (int k = lo; k <= hi; k++) ok |= (v == k * 0.5); return ok; }
static int egrid(double v){return v==0.0||v==1.0||v==2.0||v==3.0||v==4.0;}
static int Egrid(double v){return v==0.0||v==-1.0||v==0.5||v==1.5||v==2.5||v==3.5||v==4.5||v==1.0||v==2.0;}
static int pow2grid(double v) { return v==0.0 || v==1.0 || v==2.0 || v==4.0; }
void harness_L3(void) {
  int Z = nondet_int(); double E = nondet_double();
  __CPROVER_assume(Z == 26);
  __CPROVER_havoc_object(EdgeEnergy_arr);__CPROVER_havoc_object(JumpFactor_arr);__CPROVER_havoc_object(FluorYield_arr);__CPROVER_havoc_object(CosKron_arr);
  __CPROVER_assume(Egrid(E));
  for (int s = 0; s < 4; s++) {
    __CPROVER_assume(egrid(EdgeEnergy_arr[Z][s]));
    __CPROVER_assume(pow2grid(JumpFactor_arr[Z][s]));
    __CPROVER_assume(grid(FluorYield_arr[Z][s], 0, 2));
  }
  __CPROVER_assume(grid(CosKron_arr[Z][FL12_TRANS],0,2) && grid(CosKron_arr[Z][FL13_TRANS],0,2) && grid(CosKron_arr[Z][FLP13_TRANS],0,2) && grid(CosKron_arr[Z][FL23_TRANS],0,2));
  photo_val = nondet_double(); __CPROVER_assume(grid(photo_val,0,4));
  /* physical ordering of edges K > L1 > L2 > L3 when present */
  double eK=EdgeEnergy_arr[Z][0], e1=EdgeEnergy_arr[Z][1], e2=EdgeEnergy_arr[Z][2], e3=EdgeEnergy_arr[Z][3];
  __CPROVER_assume((eK==0||e1==0||eK>e1) && (e1==0||e2==0||e1>e2) && (e2==0||e3==0||e2>e3)&& (eK==0||e2==0||eK>e2)&& (eK==0||e3==0||eK>e3)&& (e1==0||e3==0||e1>e3));
  xrl_error *err = 0;
  double r = CS_FluorShell(Z, L3_SHELL, E, &err);
  /* reference */
  double JK=JumpFactor_arr[Z][0], J1=JumpFactor_arr[Z][1], J2=JumpFactor_arr[Z][2], J3=JumpFactor_arr[Z][3];
  double w3=FluorYield_arr[Z][3];
  double f12=CosKron_arr[Z][FL12_TRANS], f13=CosKron_arr[Z][FL13_TRANS]+CosKron_arr[Z][FLP13_TRANS], f23=CosKron_arr[Z][FL23_TRANS];
  int ok = 1; double share = 1.0, t1=0,t2=0,t3=0;
  if (!(E > 0)) ok = 0;
  if (ok && eK > 0 && E > eK) { if (JK<=0) ok=0; else share /= JK; }
  if (ok) {
    if (e1>0 && E>e1) { if (J1<=0||J2<=0||J3<=0) ok=0; else { t1=(J1-1)/J1; t2=(J2-1)/(J2*J1); t3=(J3-1)/(J3*J2*J1);} }
    else if (e2>0 && E>e2) { if (J2<=0||J3<=0) ok=0; else { t2=(J2-1)/J2; t3=(J3-1)/(J3*J2);} }
    else if (e3>0 && E>e3) { if (J3<=0) ok=0; else t3=(J3-1)/J3; }
    else ok=0;
  }
  if (ok && t2>0 && f23<=0) ok=0;
  if (ok && t1>0 && (f13<=0||f12<=0||f23<=0)) ok=0;
  if (ok && w3<=0) ok=0;
  double ref = share*(t3 + t2*f23 + t1*(f13 + f12*f23))*w3*photo_val;
  if (ok && ref != 0.0) { assert(err==0); assert(fabs(r-ref) < 1e-9); }
  else if (!ok) { assert(r==0.0); assert(err!=0); }
#ifdef WITNESS
  assert(0);
#endif
}
