import sys,time,itertools
sys.argv=['x','cs_line.ll']
src=open('irsym1.py').read().split("if __name__=='__main__':")[0]
exec(src)
fns,glob=parse('cs_line.ll')
ev=Ev(fns,glob,{'EdgeEnergy','JumpFactor','FluorYield','CosKronTransProb','CS_Photo','RadRate'})
Z=BitVec('Z',32); shell=BitVecVal(3,32); E=Real('E')
rv,st=ev.run('CS_FluorShell',[Z,shell,E,('slot',)],St(),BoolVal(True))
ee=ev.uf['EdgeEnergy']; jf=ev.uf['JumpFactor']; fy=ev.uf['FluorYield']; ck=ev.uf['CosKronTransProb']; ph=ev.uf['CS_Photo']
B=lambda k: BitVecVal(k,32)
eK,e1,e2,e3=[ee(Z,B(k)) for k in range(4)]; JK,J1,J2,J3=[jf(Z,B(k)) for k in range(4)]; w3=fy(Z,B(3))
f12=ck(Z,B(1)); f13=ck(Z,B(2))+ck(Z,B(3)); f23=ck(Z,B(4))
aK=And(eK>0,E>eK); a1=And(e1>0,E>e1)
# hardest case: above K and above L1: reference written with inverse-free cross-multiplied form
ok=And(Z>=1,Z<=120,E>0,JK>1,J1>1,J2>1,J3>1,f23>0,f13>0,f12>0,w3>0,ph(Z,E)>0)
ref=(1/JK)*((J3-1)/(J3*J2*J1)+(J2-1)/(J2*J1)*f23+(J1-1)/J1*(f13+f12*f23))*w3*ph(Z,E)
g=Goal(); g.add(*ev.axioms); g.add(aK,a1,ok,Not(rv==ref))
for tac in ('smt','qfnra-nlsat'):
    t=time.time()
    try:
        s=Then('simplify','propagate-values','solve-eqs',tac).solver() if tac!='smt' else Solver()
        s.set('timeout',300000); s.add(g.as_expr()); print(tac,s.check(),'%.1fs'%(time.time()-t),flush=True)
    except Exception as e: print(tac,'err',e)
open('hard.smt2','w').write('(set-logic QF_UFNRA)\n'+Solver().sexpr() if False else '')
s=Solver(); s.add(g.as_expr()); open('hard.smt2','w').write('(set-logic ALL)\n'+s.sexpr()+'(check-sat)\n')
