#include "xraylib++.h"
extern "C" __attribute__((noinline)) double w_AtomicWeight(int Z) { return xrlpp::AtomicWeight(Z); }
extern "C" __attribute__((noinline)) double w_CS_Total_CP(const char *c, double E) { return xrlpp::CS_Total_CP(std::string(c), E); }
extern "C" __attribute__((noinline)) void w_process(xrl_error *e) { xrlpp::_process_error(e); }
